"""Contract of orchestration.spawn_missing_watchers for the indexing gate (C17) and the watch matrix (C19)."""
import asyncio

from pyvc import *
from pyvc.loader import suspend
from pyvc.stubs import Opaque, NullLogger
from kopf._cogs.structs import references


def _res(plural, namespaced=True):
    return references.Resource(group='example.com', version='v1', plural=plural, kind=plural.capitalize(),
                               singular=plural, shortcuts=frozenset(), categories=frozenset(),
                               subresources=frozenset(), namespaced=namespaced, preferred=True,
                               verbs=frozenset({'list', 'watch', 'patch'}))


@harness('O2w', targets='kopf._core.reactor.orchestration.spawn_missing_watchers', props=['C17', 'C19', 'C01', 'C03', 'C05', 'C07', 'C08', 'C09', 'C13', 'C14', 'C15', 'C20'],
         clauses=['one_watcher_per_missing_pair', 'existing_watchers_untouched', 'own_gate_per_indexed_watcher',
                  'no_gate_for_unindexed_kind', 'global_blocker_spans_the_spawning', 'watcher_arguments'],
         canaries=['canary.never_spawns', 'canary.always_gated'],
         assumes=['shape: two namespaced kinds and one cluster-scoped kind x two namespaces (the product loop runs natively); '
                  'which kinds are indexed and which (kind, namespace) watchers exist already is symbolic'],
         trusted=['aiotoggles.ToggleSet.make_toggle returns a fresh toggle that is ON in the set until dropped (S6)',
                  'aiotasks.create_guarded_task schedules the coroutine (S3)', 'queueing.watcher by contract Q5/Q7: '
                  'drops ITS resource_indexed toggle when ITS stream is listed'])
def O2w(vc):
    """
    spawn_missing_watchers (C17: "handling waits until EVERY indexed kind has been listed and indexed once";
    C19: "exactly one watch per served (resource, namespace) pair").
      * exactly one watcher task is created per (resource, namespace-or-None) pair that has none, none for a pair
        that has one, and the existing entries of ensemble.watcher_tasks stay as they are;
      * a watcher of an indexed kind gets a gate toggle made for IT: a toggle of ensemble.operator_indexed that no
        other watcher (spawned now or earlier) holds -- the watcher drops its toggle when its OWN stream is listed
        (contract Q7), so a shared toggle would open the operator-wide gate after the first of the streams;
      * a watcher of a kind without indices gets no toggle (None), but the operator-wide toggle-set itself;
      * the global "orchestration blocker" is made before the first and dropped after the last spawn, so the
        operator-wide gate cannot be seen open in between;
      * each watcher is started for its own resource / namespace (None for cluster-scoped kinds) with the
        operator's pause and index toggle-sets and a processor bound to the resource.
    """
    eng = E()
    ra, rb, rc = _res('alphas'), _res('betas'), _res('gammas', namespaced=False)
    nss = ['ns1', 'ns2']
    indexed_flags = {r: vc.bool(f'indexed[{r.plural}]') for r in (ra, rb, rc)}

    class Indexed:                                   # Container: only `in` is allowed (see the signature's comment)
        def __contains__(self, r):
            return indexed_flags[r]

    made, dropped, spawned, order = [], [], [], []

    class ToggleSet:
        async def make_toggle(self, name=None):
            t = Opaque(f'toggle#{len(made)}:{name}')
            made.append(t); order.append(('make', t))
            await suspend('make_toggle')
            return t

        async def drop_toggle(self, t):
            dropped.append(t); order.append(('drop', t))
            await suspend('drop_toggle')
    op_indexed, op_paused = ToggleSet(), Opaque('operator_paused')
    preexisting = {}
    existing_task = Opaque('existing-watcher-task')

    class Tasks(dict):
        def __contains__(self, k):
            if dict.__contains__(self, k):
                return True
            if k not in preexisting:
                preexisting[k] = vc.bool(f'has_watcher[{k.resource.plural}@{k.namespace}]')
                if preexisting[k]:
                    dict.__setitem__(self, k, existing_task)
                    return True
            return dict.__contains__(self, k)
    tasks = Tasks()
    ensemble = Opaque('ensemble', operator_indexed=op_indexed, operator_paused=op_paused, watcher_tasks=tasks)

    def watcher(**kw):
        return Opaque('watcher-coro', kw=kw)

    def create_guarded_task(coro, *, name, logger=None, cancellable=False, **_):
        t = Opaque(f'task:{name}', coro=coro, cancellable=cancellable)
        spawned.append(t); order.append(('spawn', t))
        return t

    async def sleep(_):
        await suspend('sleep')

    def processor(**kw):
        return kw
    settings = Opaque('settings')
    ld = vc.load('kopf._core.reactor.orchestration', 'spawn_missing_watchers', stubs={
        'queueing.watcher': watcher, 'aiotasks.create_guarded_task': create_guarded_task,
        'asyncio.sleep': sleep, 'logger': NullLogger()})
    vc.drive(ld.fn(processor=processor, settings=settings, indexed_resources=Indexed(),
                   watched_resources=[ra, rb, rc], watched_namespaces=nss, ensemble=ensemble),
             on_suspend=lambda site: None)

    pairs = [(r, ns if r.namespaced else None) for r in (ra, rb, rc) for ns in nss]
    pairs = list(dict.fromkeys(pairs))
    by_pair = {}
    for t in spawned:
        kw = t.coro.kw
        by_pair.setdefault((kw['resource'], kw['namespace']), []).append(t)
    held = []
    for (r, ns) in pairs:
        from kopf._core.reactor.orchestration import EnsembleKey
        k = EnsembleKey(resource=r, namespace=ns)
        had = preexisting.get(k, False)
        ts = by_pair.get((r, ns), [])
        vc.ensure('one_watcher_per_missing_pair', len(ts) == (0 if had else 1))
        if had:
            vc.ensure('existing_watchers_untouched', dict.get(tasks, k) is existing_task)
            continue
        t = ts[0]
        kw = t.coro.kw
        vc.ensure('one_watcher_per_missing_pair', dict.get(tasks, k) is t and t.cancellable is True)
        gate = kw['resource_indexed']
        if indexed_flags[r]:
            vc.ensure('own_gate_per_indexed_watcher', gate is not None and any(gate is m for m in made)
                      and not any(gate is h for h in held) and not any(gate is d for d in dropped))
            held.append(gate)
        else:
            vc.ensure('no_gate_for_unindexed_kind', gate is None)
        vc.ensure('watcher_arguments', kw['operator_indexed'] is op_indexed and kw['operator_paused'] is op_paused
                  and kw['settings'] is settings and kw['processor'](x=1) == {'x': 1, 'resource': r})
    vc.ensure('one_watcher_per_missing_pair', set(by_pair) <= set(pairs))
    # the global blocker: first made, last dropped, nothing else dropped, every spawn in between
    vc.ensure('global_blocker_spans_the_spawning',
              len(made) >= 1 and order[0] == ('make', made[0]) and dropped == [made[0]]
              and all(i < order.index(('drop', made[0])) for i, ev in enumerate(order) if ev[0] in ('spawn', 'make')))
    vc.ensure('global_blocker_spans_the_spawning', not any(made[0] is h for h in held))
    vc.canary('canary.never_spawns', len(spawned) == 0)
    vc.canary('canary.always_gated', all(t.coro.kw['resource_indexed'] is not None for t in spawned))
    return ('done', len(spawned), len(made))


# ----------------------------------------------------------------------------------------------- O2t
@harness('O2t', targets=['kopf._core.reactor.orchestration.terminate_redundancies', 'kopf._core.reactor.orchestration.Ensemble.get_keys',
                         'kopf._core.reactor.orchestration.Ensemble.get_tasks', 'kopf._core.reactor.orchestration.Ensemble.get_flags',
                         'kopf._core.reactor.orchestration.Ensemble.del_keys'],
         props=['C20', 'C19', 'C13', 'C01', 'C07', 'C09', 'C17'],
         clauses=['live_tasks_stay_owned', 'stops_exactly_the_redundant', 'drops_exactly_their_flags', 'forgets_exactly_the_redundant',
                  'stopped_before_forgotten'],
         canaries=['canary.nothing_redundant'],
         assumes=['shape: three keys (a kind in two namespaces, a cluster-wide kind), each with one of four task/flag shapes; which kinds and '
                  'namespaces stay served is free (the comprehension over the ensemble keys runs natively)'],
         trusted=['aiotasks.stop(tasks): suspends; when it returns every given task is done (S4); a cancellation may arrive while it waits',
                  'ToggleSet.drop_toggles (AK2)'])
def O2t(vc):
    """
    orchestration.terminate_redundancies (the real Ensemble methods inlined), C20 "the whole operator shuts down rather than
    lingering half-alive ... cleanup handlers run after everything else has stopped" and C19 "none for anything else":
      live_tasks_stay_owned   at every suspension point inside it -- where the orchestrator may be cancelled, and then stops
                              exactly ensemble.get_tasks(ensemble.get_keys()) -- every stream task that has not ended yet is
                              still registered in the ensemble: nothing alive is ever un-owned;
      stops_exactly_the_redundant     aiotasks.stop gets exactly the tasks of keys whose namespace or resource is no longer served;
      drops_exactly_their_flags       ... and exactly their conflict toggles leave operator_paused (no stale pause);
      forgets_exactly_the_redundant   afterwards the ensemble holds exactly the entries of the remaining keys;
      stopped_before_forgotten        a key is forgotten only after its tasks have ended.
    """
    from kopf._core.reactor import orchestration
    Key = orchestration.EnsembleKey
    ra, rb = _res('alphas'), _res('betas')
    keys = [Key(ra, 'ns1'), Key(ra, 'ns2'), Key(rb, None)]
    remaining_res = {r for r in (ra, rb) if vc.nondet(2, f'{r.plural} still served?') == 1}
    remaining_ns = {ns for ns in ('ns1', 'ns2') if vc.nondet(2, f'{ns} still served?') == 1} | {None}

    class Task:
        def __init__(self, name):
            self.name, self.ended = name, False

        def __repr__(self):
            return f'<task {self.name}>'
    ens = orchestration.Ensemble(operator_indexed=Opaque('operator_indexed'), operator_paused=None, peering_missing=Opaque('peering_missing'))
    all_tasks, flags = [], {}
    SHAPES = [(), ('watcher',), ('watcher', 'peering', 'pinging', 'flag'), ('peering', 'flag')]
    for k in keys:
        shape = SHAPES[vc.nondet(len(SHAPES), f'what exists for {k.resource.plural}@{k.namespace}')]
        for kind, d in (('watcher', ens.watcher_tasks), ('peering', ens.peering_tasks), ('pinging', ens.pinging_tasks)):
            if kind in shape:
                d[k] = Task(f'{kind}:{k.resource.plural}@{k.namespace}')
                all_tasks.append((k, d[k]))
        if 'flag' in shape:
            ens.conflicts_found[k] = flags[k] = Opaque(f'flag:{k.resource.plural}@{k.namespace}')
    redundant = [k for k in keys if k.namespace not in remaining_ns or k.resource not in remaining_res]
    stopped, dropped, events = [], [], []

    def owned():
        return set(ens.get_tasks(ens.get_keys()))

    def at_suspension(site):
        for k, t in all_tasks:
            vc.ensure('live_tasks_stay_owned', t.ended or t in owned())
        return None

    async def stop(tasks, **kw):
        tasks = list(tasks)
        stopped.append(tasks)
        events.append('stop')
        await suspend('aiotasks.stop')
        for t in tasks:
            t.ended = True

    class Paused:
        async def drop_toggles(self, toggles):
            dropped.append(set(toggles))
            events.append('drop')
            await suspend('drop_toggles')
    ens.operator_paused = Paused()
    ld = vc.load('kopf._core.reactor.orchestration', 'terminate_redundancies', stubs={'aiotasks.stop': stop, 'logger': NullLogger()})
    vc.drive(ld.fn(remaining_resources=remaining_res, remaining_namespaces=remaining_ns, ensemble=ens), on_suspend=at_suspension)
    want_tasks = {t for k, t in all_tasks if k in redundant}
    vc.ensure('stops_exactly_the_redundant', len(stopped) == 1 and set(stopped[0]) == want_tasks)
    vc.ensure('drops_exactly_their_flags', len(dropped) == 1 and dropped[0] == {f for k, f in flags.items() if k in redundant})
    left = {(k, t) for d in (ens.watcher_tasks, ens.peering_tasks, ens.pinging_tasks) for k, t in d.items()}
    vc.ensure('forgets_exactly_the_redundant', left == {(k, t) for k, t in all_tasks if k not in redundant}
              and set(ens.conflicts_found) == {k for k in flags if k not in redundant})
    vc.ensure('stopped_before_forgotten', all(t.ended for k, t in all_tasks if k in redundant))
    vc.canary('canary.nothing_redundant', not redundant)
    return ('done', len(redundant), len(want_tasks))


# ----------------------------------------------------------------------------------------------- O3w (bounded, native)
from pyvc.bounded import bounded


@bounded('O3w', targets=['kopf._core.reactor.orchestration.orchestrator', 'kopf._core.reactor.orchestration.spawn_missing_watchers'],
         props=['C20', 'C19', 'C03', 'C08', 'C13', 'C14', 'C15', 'C17'],
         clauses=['dead_watcher_stops_the_operator', 'healthy_watchers_keep_it_running'],
         universe='the real orchestrator + adjust_tasks + spawn_missing_watchers on a real event loop, queueing.watcher replaced by a watcher that '
                  'ends after 50 ms in one of 4 ways (RuntimeError as after a failed worker, an arbitrary Exception as a WatchingError of the '
                  'stream, a plain return, running on) x 2 shapes (namespaced kind in one namespace, cluster-scoped kind); observed for 0.5 s')
def O3w(b):
    """
    C20 "When any essential task fails -- including a watch stream or an object worker failing unrecoverably -- ... the whole operator
    shuts down rather than lingering half-alive" (and C19: no served pair is left without a watch silently):
      dead_watcher_stops_the_operator   when a spawned watcher task ends with an error, the orchestrator -- the root task that owns it --
                                        ends too (with an error) within the observation time, so that run_tasks stops the operator;
                                        [KNOWN FINDING F-C20-1: nobody awaits or monitors the guarded watcher tasks: the failure is only logged]
      healthy_watchers_keep_it_running  while the watchers run, the orchestrator runs.
    Bounded stand-in (labelled B): a native run on the real event loop -- the escalation path crosses asyncio's task machinery.
    """
    import asyncio, logging
    from kopf._cogs.aiokits import aiotoggles
    from kopf._cogs.configs import configuration
    from kopf._cogs.structs import references
    from kopf._core.reactor import orchestration, queueing

    async def scenario(how, namespaced):
        settings = configuration.OperatorSettings()
        insights = references.Insights()
        res = _res('things', namespaced=namespaced)
        ended = asyncio.Event()

        async def watcher(**kwargs):
            await asyncio.sleep(0.05)
            ended.set()
            if how == 'RuntimeError':
                raise RuntimeError('Event processing has failed with an unrecoverable error. The operator will stop to prevent damage.')
            if how == 'Exception':
                raise Exception('the watch stream has failed')
            if how == 'runs on':
                await asyncio.Event().wait()
        orig, queueing.watcher = queueing.watcher, watcher
        prev = logging.root.manager.disable
        logging.disable(logging.CRITICAL)
        try:
            async def processor(**_):
                return None
            root = asyncio.create_task(orchestration.orchestrator(settings=settings, insights=insights, identity='me',
                                                                  operator_paused=aiotoggles.ToggleSet(any), processor=processor))
            await asyncio.sleep(0)
            async with insights.revised:
                insights.watched_resources.add(res)
                insights.namespaces.add('ns1' if namespaced else None)
                insights.revised.notify_all()
            await asyncio.wait_for(ended.wait(), timeout=5)
            await asyncio.sleep(0.5)
            alive = not root.done()
            root.cancel()
            try:
                await root
            except BaseException:
                pass
            return alive
        finally:
            queueing.watcher = orig
            logging.disable(prev)

    for how in ('RuntimeError', 'Exception', 'returns', 'runs on'):
        for namespaced in (True, False):
            b.case(key=(how, namespaced))
            alive = asyncio.run(scenario(how, namespaced))
            w = lambda: dict(watcher=how, namespaced=namespaced, orchestrator_still_running_after_half_a_second=alive)
            if how in ('RuntimeError', 'Exception'):
                b.check('dead_watcher_stops_the_operator', not alive, w, excuse='F-C20-1')
            elif how == 'runs on':
                b.check('healthy_watchers_keep_it_running', alive, w)


# =============================================================================================== O2a
@harness('O2a', targets='kopf._core.reactor.orchestration.adjust_tasks',
         props=['C01', 'C19', 'C13', 'C17', 'C03', 'C20', 'C09'],
         prop_clauses={'C13': ['pause_toggle_follows_the_peering_crd', 'peering_spawned_for_the_found_peering_resources', 'arguments_passed_on', 'peerings_before_watchers'],
                       'C17': ['stop_first_start_later', 'arguments_passed_on'],
                       'C03': ['stop_first_start_later', 'arguments_passed_on'],
                       'C20': ['stop_first_start_later'], 'C09': ['stop_first_start_later', 'arguments_passed_on']},
         clauses=['stop_first_start_later', 'peerings_before_watchers', 'keeps_what_is_still_served', 'peering_spawned_for_the_found_peering_resources',
                  'pause_toggle_follows_the_peering_crd', 'arguments_passed_on'],
         canaries=['canary.always_peering', 'canary.always_paused'],
         trusted=['terminate_redundancies by contract O2t (stops and forgets exactly the streams outside remaining_resources x '
                  'remaining_namespaces; returns when they have ENDED)', 'spawn_missing_peerings / spawn_missing_watchers by contract '
                  'O2 / O2w / O1 (start what is missing, keep what exists)', 'peering.guess_selectors: the selectors of the peering '
                  'resources for these settings', 'Toggle.turn_to by contract O1u'])
def O2a(vc):
    """
    orchestration.adjust_tasks -- one round of bringing the streams in line with the insights -- as an ordering trace over its
    callees (each by its own contract):
      stop_first_start_later   "stop the tasks first, start later -- not vice versa": terminate_redundancies is called once and has
                               RETURNED (its streams have ended, O2t) before spawn_missing_peerings and spawn_missing_watchers are
                               called.  A stream over a resource or namespace that is no longer served and a new stream can show the
                               same objects (a CRD that switches its served version keeps the uids; a namespace selector that
                               changes): started the other way round, one object has two workers at once (C01 "processed serially");
      peerings_before_watchers  spawn_missing_peerings has RETURNED before spawn_missing_watchers is called: it makes the per-namespace
                               conflict toggles inside operator_paused -- switched ON from the start when peering is mandatory -- and a
                               new resource stream looks at the pause gate at its first step; started the other way round the stream
                               passes the gate and LISTS (and its objects are handled) before the operator has looked at its peers
                               (C19 "while paused nothing is listed or watched"; C13 "exactly the top one is active", every order of starts);
      keeps_what_is_still_served  the terminator is told to keep exactly the watched resources plus the peering resources found, over the
                               served namespaces plus None (cluster-scoped streams);
      peering_spawned_for_the_found_peering_resources  spawn_missing_peerings gets exactly the peering resources that the backbone knows for the
                               guessed selectors, over the served namespaces, with the operator's settings and identity;
      pause_toggle_follows_the_peering_crd   ensemble.peering_missing is turned on iff peering is mandatory and no peering resource is
                               known (docs/peering.rst: "if the peering object does not exist, the operator will pause"), before
                               anything is started;
      arguments_passed_on      spawn_missing_watchers gets the operator's processor and settings, the indexed and watched resources
                               and the namespaces of the insights; every callee works on the one given ensemble.
    """
    from kopf._cogs.structs import references
    PK = references.Resource('kopf.dev', 'v1', 'kopfpeerings', namespaced=True)
    PZ = references.Resource('zalando.org', 'v1', 'kopfpeerings', namespaced=True)
    A = references.Resource('example.com', 'v1', 'alphas', namespaced=True)
    sel_k, sel_z = Opaque('selector:kopf.dev'), Opaque('selector:zalando.org')
    known = [{}, {sel_k: PK}, {sel_z: PZ}, {sel_k: PK, sel_z: PZ}][vc.nondet(4, 'peering resources known to the backbone: none / kopf.dev / zalando.org / both')]
    selectors = [[sel_k, sel_z], []][vc.nondet(2, 'guessed selectors: both / none (standalone)')]
    mandatory = vc.bool('settings.peering.mandatory')
    settings = Opaque('settings', peering=Opaque('peering', mandatory=mandatory))
    watched = [set(), {A}][vc.nondet(2, 'watched resources: none / some')]
    namespaces = [set(), {'ns1', 'ns2'}, {None}][vc.nondet(3, 'namespaces: none / two / cluster-wide')]
    indexed = Opaque('indexed_resources')
    insights = Opaque('insights', backbone=dict(known), watched_resources=set(watched), namespaces=set(namespaces), indexed_resources=indexed)
    processor, identity = Opaque('processor'), Opaque('identity')

    async def turn_to(v):
        vc.emit('turn_to', v)
        await suspend('turn_to')
    ensemble = Opaque('ensemble', peering_missing=Opaque('peering_missing', turn_to=turn_to))

    def callee(name):
        async def stub(**kw):
            vc.emit(name, kw)
            await suspend(name)
            vc.emit(name + '.returned')
        return stub

    def guess_selectors(*, settings):
        vc.emit('guess_selectors', settings)
        return list(selectors)
    ld = vc.load('kopf._core.reactor.orchestration', 'adjust_tasks', stubs={
        'peering.guess_selectors': guess_selectors,
        'terminate_redundancies': callee('terminate'), 'spawn_missing_peerings': callee('spawn_peerings'),
        'spawn_missing_watchers': callee('spawn_watchers')})
    vc.drive(ld.fn(processor=processor, insights=insights, settings=settings, identity=identity, ensemble=ensemble), lambda site: None)
    tr = vc.trace
    names = [e[0] for e in tr]
    idx = lambda n: names.index(n) if n in names else None
    found = {known[s] for s in selectors if s in known}
    # -- ordering
    ok = all(names.count(n) == 1 for n in ('terminate', 'terminate.returned', 'spawn_peerings', 'spawn_watchers'))
    vc.ensure('stop_first_start_later', ok and idx('terminate.returned') < idx('spawn_peerings') and idx('terminate.returned') < idx('spawn_watchers'))
    # -- the peering toggles exist (pre-activated when peering is mandatory) before any resource stream can take its first step
    vc.ensure('peerings_before_watchers', names.count('spawn_peerings.returned') == 1 and idx('spawn_peerings.returned') < idx('spawn_watchers'))
    # -- the pause toggle
    turns = [e for e in tr if e[0] == 'turn_to']
    vc.ensure('pause_toggle_follows_the_peering_crd', len(turns) == 1 and names.index('turn_to') < min(idx('spawn_peerings'), idx('spawn_watchers')))
    if turns:
        vc.ensure('pause_toggle_follows_the_peering_crd', Iff(bool(turns[0][1]) if not isinstance(turns[0][1], SBool) else turns[0][1],
                                                            And(mandatory, not found)))
        vc.canary('canary.always_paused', turns[0][1] if isinstance(turns[0][1], SBool) else bool(turns[0][1]))
    vc.canary('canary.always_peering', bool(found))
    kw_t = next((e[1] for e in tr if e[0] == 'terminate'), {})
    kw_p = next((e[1] for e in tr if e[0] == 'spawn_peerings'), {})
    kw_w = next((e[1] for e in tr if e[0] == 'spawn_watchers'), {})
    vc.ensure('keeps_what_is_still_served', set(kw_t.get('remaining_resources', ())) == watched | found
              and set(kw_t.get('remaining_namespaces', ())) == namespaces | {None} and kw_t.get('ensemble') is ensemble)
    vc.ensure('peering_spawned_for_the_found_peering_resources', set(kw_p.get('resources', ())) == found and set(kw_p.get('namespaces', ())) == namespaces
              and kw_p.get('settings') is settings and kw_p.get('identity') is identity and kw_p.get('ensemble') is ensemble)
    vc.ensure('arguments_passed_on', kw_w.get('processor') is processor and kw_w.get('settings') is settings and kw_w.get('ensemble') is ensemble
              and kw_w.get('indexed_resources') is indexed and set(kw_w.get('watched_resources', ())) == watched
              and set(kw_w.get('watched_namespaces', ())) == namespaces)
    return ('adjusted', sorted(r.group for r in found))
