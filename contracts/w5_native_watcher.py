"""Round-11 contract: queueing.watcher once more, WITHOUT a loop contract (structure-independent companion of Q5 / Q7).

Q5 (c01_queueing.py) and Q7 (c17_indexing.py) cut the watcher's `async for raw_event in stream` by a loop contract, replace
the local `streams` at the loop head and stub the callees by the names the source spells (`asyncio.create_task`,
`_wait_for_depletion`, `watching.infinite_watch` ...): unbounded, but anchored to the loop header, to local names and to the
callee spellings -- a restructured watcher (the multiplexing moved into a helper, the exit path into a context manager, the
draining inlined) leaves them undecided.  Q5n runs the REAL coroutine natively from its start to its end -- together with
whatever module-level helpers it calls (`get_uid`, the real `_wait_for_depletion`, a helper a refactoring may add) -- over a
scripted watch-stream of at most three items about two objects.  Only the module attributes of `kopf._core.reactor.queueing`
that lead OUT of the watcher are replaced (in this harness' own forked process): `watching` (the scripted stream), `worker`
(returns a recording job), `aiotasks` (a recording Scheduler that starts a job FACTORY later), `asyncio` (list-backed Queue,
boolean Event, a Condition / tasks / shield / wait_for with asyncio's cancellation semantics on the harness' own driver) and
`logger`.  The harness plays the other tasks at every suspension point of the watcher: a started worker takes its events
and clears the pressure, retires by deleting ITS `streams[key]` entry, fails (the scheduler calls the exception handler the
watcher gave it), the operator cancels the watcher -- again while it drains.  Every clause is stated over the arguments,
the collaborators and the harness' own log.  Exhaustive for the enumerated situations, labelled B, never counted as proved."""
import asyncio
import types

from pyvc import *
from pyvc.loader import Suspend
from pyvc.stubs import NullLogger

from kopf._cogs.clients import watching as real_watching
from kopf._cogs.aiokits import aiotasks as real_aiotasks
from kopf._cogs.configs import configuration
from kopf._cogs.structs import references

from contracts.w5_native import patched, _not_ours

TYPES = [None, 'ADDED', 'MODIFIED', 'DELETED']
RES = references.Resource('kopf.dev', 'v1', 'kopfexamples', namespaced=True)
LISTED = real_watching.Bookmark.LISTED


class _Livelock(BaseException):
    """the watcher waits for something that can never happen"""


class _Deadline(BaseException):
    """the time-out of the enclosing asyncio.wait_for fires here"""


# Stable trampolines / namespaces that dispatch to the fakes of the path being explored: the target is extracted from the
# source once per (forked, per-harness) process instead of once per path.
_CUR = {}
_LD = {}


def _t_worker(*a, **kw):
    return _CUR['worker'](*a, **kw)


class _Dispatch:
    def __init__(self, prefix, real):
        self._prefix, self._real = prefix, real

    def __getattr__(self, name):
        cur = _CUR.get(self._prefix, {})
        if name in cur:
            return cur[name]
        return getattr(self._real, name)


_FAKE_ASYNCIO = _Dispatch('asyncio', asyncio)
_FAKE_WATCHING = _Dispatch('watching', real_watching)
_FAKE_AIOTASKS = _Dispatch('aiotasks', real_aiotasks)


@harness('Q5n', targets=['kopf._core.reactor.queueing.watcher', 'kopf._core.reactor.queueing._wait_for_depletion'],
         props=['C03', 'C17', 'C19', 'C20'], sizes_only=True,
         prop_clauses={'C03': ['every_event_put_into_a_live_stream_of_its_object', 'pressure_follows_put', 'gate_toggle_dropped_once_listed',
                               'worker_handed_the_gate'],
                       'C17': ['every_event_put_into_a_live_stream_of_its_object', 'gate_toggle_dropped_once_listed', 'worker_handed_the_gate'],
                       'C19': ['every_event_put_into_a_live_stream_of_its_object', 'drains_on_exit'],
                       'C20': ['worker_failure_escalates', 'drains_on_exit']},
         clauses=['every_event_put_into_a_live_stream_of_its_object', 'pressure_follows_put', 'gate_toggle_dropped_once_listed',
                  'worker_handed_the_gate', 'worker_failure_escalates', 'drains_on_exit'],
         canaries=['canary.never_spawns', 'canary.nobody_interferes', 'canary.never_fails', 'canary.gate_never_dropped',
                   'canary.always_gated', 'canary.no_eos', 'canary.never_times_out'],
         trusted=['watching.infinite_watch by contracts W1/W2: an async generator of raw events and Bookmark.LISTED after each listing (here: scripted; '
                  'suspends before every item and before its end)',
                  'queueing.worker by contracts Q1/Q1n (here: a recording job; the harness plays its effects: it takes the events of the backlog registered '
                  'under its key and clears the pressure, retires by deleting ITS streams[key] entry, ends on EOS)',
                  'aiotasks.Scheduler by contracts S1/S2: spawn(coro | factory, name=) takes the job and suspends, a FACTORY is called when the job really starts '
                  '(any number of suspensions later; here: at the third suspension after the spawn or when the stream ends); a failed job is reported to '
                  'exception_handler; empty() iff no job is pending or running; close() suspends',
                  'asyncio.Queue: unbounded put does not suspend; asyncio.Event: a boolean cell; asyncio.Condition: `async with` may suspend at entry, '
                  'wait_for(pred) returns when pred() holds; asyncio.wait_for(aw, t) raises TimeoutError when t elapses first; asyncio.create_task / shield / '
                  'await task: a cancellation of the waiter is passed on to an awaited task unless it is shielded; task.cancel() of the suspended current '
                  'task raises CancelledError at its suspension point',
                  'aiotoggles.ToggleSet by contract O1t + rely of Q7: is_on() is False while the kind toggle is a member, arbitrary otherwise; make_toggle / '
                  'drop_toggle suspend',
                  'queueing.get_uid (Q6u) and queueing._wait_for_depletion (Q9): run as real code'],
         assumes=['a watch-stream of 0..3 items about the objects a and b of one resource kind: raw events with uid, name, namespace and the types '
                  'None / ADDED / MODIFIED / DELETED in rotation from an enumerated offset, k8s BOOKMARK events (no uid), Bookmark.LISTED; three scenarios: '
                  '(multiplexing) no index gate; at every suspension of the watcher at most one started worker takes its events and clears the pressure or '
                  'retires (at most two such actions per run); the stream ends, the workers retire on EOS; '
                  '(index gate) operator_indexed / resource_indexed given: set only, set and kind toggle, kind toggle only; is_on() as trusted; nobody interferes; '
                  '(failures and stops) 0..2 events; at one suspension inside the stream a worker fails or the watcher is cancelled; while it drains it is '
                  'cancelled up to two more times; the workers retire on EOS one per wait, or hang until exit_timeout fires',
                  'default OperatorSettings'])
def Q5n(vc):
    """
    queueing.watcher(namespace, settings, resource, processor, operator_paused, operator_indexed, resource_indexed) run natively
    from its start to its end, whatever its loops and helpers are:
      every_event_put_into_a_live_stream_of_its_object  (Q5/Q6; C19 "every object change reaches processing", C03) every yielded
                                 event with an object is put exactly once, as it is, into the backlog registered in `streams` under
                                 (resource, uid of the event) AT THE TIME OF THE PUT; k8s BOOKMARK events and Bookmark.LISTED are
                                 never put; a new stream and exactly one worker job for that key are created iff no live entry
                                 exists at that moment (a live stream is never replaced); the job gets the key of THAT event -- also
                                 when the scheduler starts a job factory later --, the streams dict the watcher uses, and the
                                 settings and the processor of the watcher; every job made is handed to the scheduler;
      pressure_follows_put       (Q5; C03: a new event interrupts the sleeps of the object's handlers) after every put of an event,
                                 at the next suspension of the watcher at the latest, the pressure of the stream is set -- whatever
                                 the type of the event and however empty the backlog was;
      gate_toggle_dropped_once_listed  (Q7; C17 "do not start until every indexed kind has been listed and indexed once") the kind
                                 toggle `resource_indexed` (if given together with the set) is dropped from `operator_indexed` when
                                 Bookmark.LISTED arrives -- before the next item of the stream is taken, once per LISTED --, on no
                                 other event, and nothing else is dropped;
      worker_handed_the_gate     (Q7) every worker is handed the operator-wide set unless the set has been observed ON before (also
                                 for a kind without a toggle of its own); for an indexed kind while the set is off a per-object
                                 toggle is made OFF in that set right after observing it off, strictly before the spawn, and
                                 handed to that worker; no toggle is made without a worker getting it;
      worker_failure_escalates   (Q8; C20 "an object worker failing unrecoverably ... the whole operator shuts down ... re-raising")
                                 the first failure reported to the exception handler cancels the watcher at once; the watcher then
                                 ends with a RuntimeError of its own whose __cause__ is the worker's error (its callers tolerate
                                 certain API errors of the WATCH itself: a worker's error must not leave un-wrapped), not silently;
                                 without a failure it ends normally with the stream or with the CancelledError of its cancellation;
      drains_on_exit             (Q5 exit path, Q9; C19/C20) however it ends: every stream that is live when the stream is left gets
                                 EOS exactly once, as its last item; the scheduler is closed exactly once, to completion, not before
                                 the streams are depleted (no stream left, or no job left, or exit_timeout has fired) -- also when
                                 the watcher is cancelled again while draining or closing; nothing is put after that.
    """
    from kopf._core.reactor import queueing
    EOS = queueing.EOS.token
    settings = configuration.OperatorSettings()
    processor = object()
    paused = object()
    scenario = ['mux', 'gate', 'stops'][vc.nondet(3, 'scenario: multiplexing | index gate | failures and stops')]
    if scenario == 'gate':
        cfg = vc.nondet(3, 'gate: set only / set and kind toggle / kind toggle only')
        has_set, has_kind = cfg in (0, 1), cfg in (1, 2)
    else:
        has_set = has_kind = False
    alphabet = {'mux': ['end', 'a', 'b', 'BOOKMARK'], 'gate': ['end', 'LISTED', 'a', 'b'], 'stops': ['end', 'a', 'b']}[scenario]
    max_items = 2 if scenario == 'stops' else 3

    G = types.SimpleNamespace(
        log=[], seq=0, current=None, items=[], in_stream=True, finished=[], streams=None, live={}, queues=[], puts=[],
        unsignalled=[], pending_puts=[], jobs=[], made=[], pendings=[], workers=[], interfered=0, handler=None, handler_kw=None,
        failed=None, cancelled=False, recancelled=0, exit_snapshot=None, exit_mode=None, timeout_fired=False, deadlines=[],
        close_begun=[], close_done=0, kind_dropped=False, offset=None, n_events=0, bad=[], late_started=0, disrupted=False,
        tasks=[], sched=None, listed_pending=False)

    def note(*ev):
        G.log.append(ev)

    def key_of(item):
        return (RES, item['object']['metadata']['uid'])

    def is_event(item):
        return isinstance(item, dict) and item.get('type') != 'BOOKMARK'

    # ------------------------------------------------------------------ the fake asyncio namespace
    class FakeQueue:
        def __init__(self, *a, **kw):
            self._items = []
            self.born = len(G.items)          # created while the item of this ordinal was being handled
            G.queues.append(self)

        def _put(self, item):
            self._items.append(item)
            G.puts.append((self, item, len(G.log)))
            note('put', self, item)
            if item is EOS:
                return
            if not is_event(item):
                G.bad.append(('something that is not an object event was put', item))
                return
            key = key_of(item)
            prev = G.live.get(key)
            if prev is not None and prev is not self:
                G.bad.append(('a live stream was bypassed or replaced', key[1]))
            fresh = prev is None
            if fresh and self.born != len(G.items):
                G.bad.append(('an event was put into a stale queue', key[1]))
            G.live[key] = self
            rec = dict(queue=self, item=item, key=key, fresh=fresh)
            if G.streams is None:
                G.pending_puts.append(rec)
            else:
                registered(rec)
            G.unsignalled.append(rec)

        async def put(self, item):            # unbounded: never suspends (trusted)
            self._put(item)

        def put_nowait(self, item):
            self._put(item)

        def empty(self):
            return not self._items

        def qsize(self):
            return len(self._items)

        def full(self):
            return False

    def registered(rec):
        st = G.streams.get(rec['key'])
        if st is None or getattr(st, 'backlog', None) is not rec['queue']:
            G.bad.append(('the event was put into a backlog that is not registered under its key at the time of the put', rec['key'][1]))

    class FakeEvent:
        def __init__(self):
            self.state = False

        def is_set(self): return self.state
        def set(self): self.state = True
        def clear(self): self.state = False

        async def wait(self):
            while not self.state:
                await suspend('event.wait')
            return True

    class FakeCondition:
        async def __aenter__(self):
            await suspend('signaller.acquire')
            return self

        async def __aexit__(self, *exc):
            return False

        async def acquire(self):
            await suspend('signaller.acquire')
            return True

        def release(self): pass
        def locked(self): return False
        def notify_all(self): note('notify_all')
        def notify(self, n=1): note('notify_all')

        async def wait(self):
            await suspend('signaller.wait')
            return True

        async def wait_for(self, predicate):
            rounds = 0
            while True:
                r = predicate()
                if r:
                    return r
                rounds += 1
                if rounds > 8:
                    raise _Livelock()
                await suspend('signaller.wait')

    class FakeTask:
        """a task of the fake loop: it makes progress only while somebody awaits it (directly or through shield)"""
        def __init__(self, coro, name=None):
            self.coro, self.name = coro, name
            self._done, self._exc, self._result, self.cancel_count, self._must_cancel = False, None, None, 0, False
            G.tasks.append(self)

        def done(self): return self._done
        def cancelled(self): return self._done and isinstance(self._exc, asyncio.CancelledError)

        def cancel(self, msg=None):
            if self._done:
                return False
            self.cancel_count += 1
            self._must_cancel = True
            return True

        def result(self):
            if self._exc is not None:
                raise self._exc
            return self._result

        def exception(self):
            return None if isinstance(self._exc, asyncio.CancelledError) else self._exc

        def add_done_callback(self, fn, **kw): pass
        def get_name(self): return self.name

        def step(self, throw=None):
            """run the task up to its next suspension: returns the Suspend it yielded, or None when it has ended"""
            if throw is None and self._must_cancel:
                throw, self._must_cancel = asyncio.CancelledError(), False
            try:
                y = self.coro.throw(throw) if throw is not None else self.coro.send(None)
            except StopIteration as e:
                self._done, self._result = True, e.value
                return None
            except BaseException as e:
                if isinstance(e, (PathEnd, Unsupported, _Livelock)):
                    raise
                self._done, self._exc = True, e
                return None
            return y

        def _wait(self, shielded):
            throw = None
            while not self._done:
                y = self.step(throw)
                throw = None
                if self._done:
                    break
                try:
                    yield y                                   # the suspension of the inner task is a suspension of the waiter
                except asyncio.CancelledError as e:
                    if shielded:
                        raise                                 # the WAITING ends; the shielded task goes on when awaited again
                    self.cancel_count += 1
                    throw = e                                 # awaited directly: the cancellation is passed on to the task
                except _Deadline as e:
                    throw = e
            return self.result()

        def __await__(self):
            return self._wait(shielded=False)

    class _Shield:
        def __init__(self, task): self.task = task
        def __await__(self): return self.task._wait(shielded=True)

    def as_task(x):
        if isinstance(x, FakeTask):
            return x
        if hasattr(x, 'send') and hasattr(x, 'throw'):
            return FakeTask(x)
        raise Unsupported(f'the watcher made a task of {x!r}')

    def create_task(coro, *, name=None, **kw):
        return as_task(coro) if not isinstance(coro, FakeTask) else coro

    def shield(x):
        return _Shield(as_task(x))

    async def wait_for(aw, timeout=None):
        G.deadlines.append(timeout)
        try:
            return await aw
        except _Deadline:
            raise asyncio.TimeoutError()
        finally:
            G.deadlines.pop()

    async def sleep(delay=0, result=None):
        await suspend('asyncio.sleep')
        return result

    wtask = types.SimpleNamespace(cancel_count=0, pending_cancel=False)

    def _wcancel(msg=None):
        wtask.cancel_count += 1
        wtask.pending_cancel = True
        return True
    wtask.cancel = _wcancel
    wtask.done = lambda: False
    wtask.cancelled = lambda: False
    wtask.get_name = lambda: 'watcher'
    wtask.uncancel = lambda: 0
    wtask.cancelling = lambda: wtask.cancel_count

    # ------------------------------------------------------------------ the index gate
    class Toggle:
        def __init__(self, name): self.name = name

    kind = Toggle('kind') if has_kind else None

    class ToggleSet:
        def is_on(self):
            if kind is not None and not G.kind_dropped:
                r = False
            else:
                r = vc.nondet(2, 'operator_indexed.is_on(): off / on') == 1
            note('is_on', r)
            return r

        def is_off(self):
            return not self.is_on()

        async def make_toggle(self, *a, name=None, **kw):
            t = Toggle(name)
            note('make_toggle', t, bool(a[0]) if a else False)
            G.made.append(t)
            await suspend('make_toggle')
            return t

        async def drop_toggle(self, t):
            note('drop_toggle', t, G.current)
            if t is kind:
                G.kind_dropped = True
            await suspend('drop_toggle')

        async def drop_toggles(self, ts):
            for t in list(ts):
                note('drop_toggle', t, G.current)
                if t is kind:
                    G.kind_dropped = True
            await suspend('drop_toggles')

        async def wait_for(self, state):
            await suspend('operator_indexed.wait_for')

        def __bool__(self):
            raise Unsupported('the truth value of a ToggleSet is its non-emptiness, not its state')

    tset = ToggleSet() if has_set else None

    # ------------------------------------------------------------------ worker jobs and the scheduler
    class Job:
        def __init__(self, kw):
            self.kw, self.made_at, self.spawned, self.spawn_item, self.spawn_at = kw, G.current, False, None, None
            self.late, self.alive, self.queue, self.key = False, False, None, kw.get('key')
            G.jobs.append(self)

    def worker(*a, **kw):
        if a:
            raise Unsupported('worker() takes keyword arguments only')
        job = Job(kw)
        note('worker', job)
        if G.streams is None and isinstance(kw.get('streams'), dict):
            G.streams = kw['streams']
            for rec in G.pending_puts:
                registered(rec)
            G.pending_puts.clear()
        return job

    def start(job, item, at):
        """the scheduler starts the job: the real worker reads streams[key] first"""
        job.spawned, job.spawn_item, job.spawn_at, job.alive = True, item, at, True
        st = job.kw.get('streams')
        try:
            job.queue = st[job.key].backlog
        except Exception:
            job.queue, job.alive = None, False      # the real worker dies of a KeyError here
        G.workers.append(job)

    class Scheduler:
        def __init__(self, *a, limit=None, exception_handler=None, **kw):
            G.handler, G.handler_kw, G.sched = exception_handler, dict(limit=limit), self

        async def spawn(self, coro=None, *a, name=None, **kw):
            if G.close_begun:
                G.bad.append(('a job was spawned into a closed scheduler',))
            if isinstance(coro, Job):
                note('spawn', coro)
                start(coro, G.current, len(G.log))
            elif callable(coro):
                note('spawn-later', coro)
                G.pendings.append(dict(factory=coro, item=G.current, at=len(G.log), age=0))
            else:
                raise Unsupported(f'Scheduler.spawn got {coro!r}')
            await suspend('scheduler.spawn')

        def empty(self):
            return not G.pendings and not any(w.alive for w in G.workers)

        async def wait(self):
            await suspend('scheduler.wait')

        async def close(self):
            depleted = (not G.streams) or self.empty() or G.timeout_fired
            G.close_begun.append((depleted, len(G.log)))
            note('close')
            await suspend('scheduler.close')
            G.close_done += 1

    def start_pending(only_old):
        for p in list(G.pendings):
            p['age'] += 1
            if only_old and p['age'] < 3:
                continue
            G.pendings.remove(p)
            job = p['factory']()
            if not isinstance(job, Job):
                raise Unsupported(f'a job factory returned {job!r}')
            job.late = True
            G.late_started += 1
            start(job, p['item'], p['at'])

    # ------------------------------------------------------------------ the scripted stream
    def next_item(i):
        if i >= max_items:
            return None
        c = alphabet[vc.nondet(len(alphabet), f'stream item {i}: ' + ' / '.join(alphabet))]
        if c == 'end':
            return None
        if c == 'LISTED':
            return LISTED
        if c == 'BOOKMARK':
            return {'type': 'BOOKMARK', 'object': {'kind': 'KopfExample', 'apiVersion': 'kopf.dev/v1', 'metadata': {'resourceVersion': '123'}}}
        if G.offset is None:
            G.offset = 0 if scenario != 'mux' else vc.nondet(4, 'the type of the first object event: None / ADDED / MODIFIED / DELETED; the following ones rotate')
        typ = TYPES[(G.offset + G.n_events) % 4]
        G.n_events += 1
        return {'type': typ, 'object': {'kind': 'KopfExample', 'apiVersion': 'kopf.dev/v1',
                                        'metadata': {'uid': c, 'name': f'name-{c}', 'namespace': 'ns', 'resourceVersion': str(100 + i)}}}

    def handled():
        """the watcher asks for the next item: it is through with the current one"""
        if G.current is not None:
            G.finished.append(G.current)
            if G.current is LISTED and tset is not None and kind is not None and not G.kind_dropped:
                G.bad.append(('the listing is over and the kind toggle is still in the set',))

    watch_kw = []

    async def infinite_watch(*a, **kw):
        watch_kw.append(kw)
        i = 0
        while True:
            handled()
            await suspend('stream')
            item = next_item(i)
            if item is None:
                leave_stream()
                return
            i += 1
            G.items.append(item)
            G.current = item
            note('item', item)
            yield item

    def leave_stream():
        if G.in_stream:
            G.in_stream = False
            start_pending(only_old=False)
            signalled()
            G.exit_snapshot = dict(G.live)
            note('left')

    # ------------------------------------------------------------------ the other tasks
    def signalled():
        if G.streams is None:
            return
        for rec in G.unsignalled:
            st = G.streams.get(rec['key'])
            ok = st is not None and st.backlog is rec['queue'] and st.pressure.is_set()
            vc.ensure('pressure_follows_put', ok)
        G.unsignalled.clear()

    def takes(w):
        del w.queue._items[:]
        st = G.streams.get(w.key)
        if st is not None and st.backlog is w.queue:
            st.pressure.clear()

    def retires(w):
        takes(w)
        w.alive = False
        st = G.streams.get(w.key)
        if st is not None and st.backlog is w.queue:
            del G.streams[w.key]
        if G.live.get(w.key) is w.queue:
            del G.live[w.key]
        note('retired', w)

    def on_suspend(site):
        note('suspend', site)
        signalled()
        if G.in_stream:
            start_pending(only_old=True)
            signalled()                                  # (a job started just now made the streams known)
            if wtask.pending_cancel:                     # (cancelled by somebody the harness did not play)
                wtask.pending_cancel = False
                leave_stream()
                return asyncio.CancelledError()
            if scenario == 'mux' and G.interfered < 2:
                ws = [w for w in G.workers if w.alive and w.queue is not None]
                if ws:
                    k = vc.nondet(1 + 2 * len(ws), f'{site}: nobody interferes / a worker takes its events / a worker retires')
                    if k:
                        G.interfered += 1
                        w = ws[(k - 1) // 2]
                        (takes if (k - 1) % 2 == 0 else retires)(w)
            elif scenario == 'stops' and not G.disrupted:
                k = vc.nondet(3, f'{site}: goes on / a worker fails / the watcher is cancelled')
                if k == 1:
                    G.disrupted = True
                    G.failed = ValueError('the worker failed')
                    if G.handler is not None:
                        G.handler(G.failed)
                    vc.ensure('worker_failure_escalates', G.handler is not None and wtask.cancel_count >= 1)
                    if wtask.pending_cancel:
                        wtask.pending_cancel = False
                        leave_stream()
                        return asyncio.CancelledError()
                elif k == 2:
                    G.disrupted = True
                    G.cancelled = True
                    leave_stream()
                    return asyncio.CancelledError()
            return None
        # ---- the watcher is on its way out
        if site == 'signaller.wait':
            ws = [w for w in G.workers if w.alive and w.queue is not None and EOS in w.queue._items]
            if G.exit_mode is None:
                G.exit_mode = 'retire' if scenario != 'stops' else ['retire', 'hang'][vc.nondet(2, 'the workers retire on EOS / hang until exit_timeout fires')]
            timed = bool(G.deadlines) and G.deadlines[-1] is not None
            if G.exit_mode == 'retire' and ws:
                retires(ws[0])
            elif timed:
                G.timeout_fired = True
                return _Deadline()
            else:
                raise _Livelock()
        if scenario == 'stops' and G.recancelled < 2 and not G.close_done:
            if vc.nondet(2, f'{site}: the watcher is cancelled again while it drains?') == 1:
                G.recancelled += 1
                return asyncio.CancelledError()
        return None

    _CUR.clear()
    _CUR.update(worker=worker,
                asyncio=dict(Queue=FakeQueue, Event=FakeEvent, Condition=FakeCondition, current_task=lambda *a: wtask,
                             create_task=create_task, ensure_future=create_task, shield=shield, wait_for=wait_for, sleep=sleep),
                watching=dict(infinite_watch=infinite_watch),
                aiotasks=dict(Scheduler=Scheduler))
    escaped = None
    with patched(queueing, asyncio=_FAKE_ASYNCIO, watching=_FAKE_WATCHING, aiotasks=_FAKE_AIOTASKS, worker=_t_worker, logger=NullLogger()):
        if 'ld' not in _LD:
            _LD['ld'] = vc.load('kopf._core.reactor.queueing', 'watcher')
        else:
            vc.loaded.append(_LD['ld'])
        ld = _LD['ld']
        try:
            vc.drive(ld.fn(namespace='ns', settings=settings, resource=RES, processor=processor, operator_paused=paused,
                           operator_indexed=tset, resource_indexed=kind), on_suspend)
        except BaseException as e:
            if _not_ours(e):
                raise
            escaped = e
    if G.in_stream and escaped is None:
        G.bad.append(('the watcher ended before the stream did',))
    start_pending(only_old=False)
    signalled()

    # ------------------------------------------------------------------ multiplexing
    E = 'every_event_put_into_a_live_stream_of_its_object'
    vc.ensure(E, not G.bad and not G.pending_puts and not isinstance(escaped, _Livelock))
    vc.ensure(E, len(watch_kw) == 1 and watch_kw[0].get('resource') is RES and watch_kw[0].get('namespace') == 'ns'
              and watch_kw[0].get('settings') is settings and watch_kw[0].get('operator_paused') is paused)
    event_puts = [(q, it) for q, it, _ in G.puts if it is not EOS]
    for item in G.finished:
        mine = [q for q, it in event_puts if it is item]
        jobs = [j for j in G.jobs if j.spawned and j.spawn_item is item]
        if not is_event(item):
            vc.ensure(E, not mine and not jobs)
            continue
        vc.ensure(E, len(mine) == 1)
    for q in G.queues:
        # a stream that was created got its worker: exactly one, for the key of the event that made it, with the watcher's own objects
        firsts = [it for qq, it in event_puts if qq is q][:1]
        if not firsts or firsts[0] not in G.finished:
            continue
        jobs = [j for j in G.jobs if j.spawned and j.spawn_item is firsts[0]]
        vc.ensure(E, len(jobs) == 1)
        for j in jobs:
            kw = j.kw
            vc.ensure(E, kw.get('key') == key_of(firsts[0]) and kw.get('streams') is G.streams and kw.get('settings') is settings
                      and kw.get('processor') is processor and j.queue is q)
    spawned = [j for j in G.jobs if j.spawned]
    vc.ensure(E, all(j.spawned for j in G.jobs) and len(spawned) == len([q for q in G.queues if any(qq is q for qq, _ in event_puts)])
              or escaped is not None)
    vc.ensure(E, all(len([j for j in spawned if j.spawn_item is it]) <= 1 for it in G.items))
    vc.canary('canary.never_spawns', not spawned)
    vc.canary('canary.nobody_interferes', G.interfered == 0)
    vc.ensure('pressure_follows_put', not G.unsignalled or escaped is not None)

    # ------------------------------------------------------------------ the index gate
    gated = tset is not None and kind is not None
    drops = [ev for ev in G.log if ev[0] == 'drop_toggle']
    GT = 'gate_toggle_dropped_once_listed'
    vc.ensure(GT, all(ev[1] is kind and kind is not None and ev[2] is LISTED for ev in drops))
    n_listed = len([it for it in G.finished if it is LISTED])
    # (a re-listing finds the toggle dropped already, and the set possibly forgotten: "if not before")
    vc.ensure(GT, (min(n_listed, 1) <= len(drops) <= n_listed if gated else not drops) or escaped is not None)
    per_item, n = [], 0
    for ev in G.log:
        if ev[0] == 'item':
            per_item.append(n); n = 0
        elif ev[0] == 'drop_toggle':
            n += 1
    vc.ensure(GT, all(c <= 1 for c in per_item + [n]))
    vc.ensure(GT, not gated or G.kind_dropped == (n_listed > 0) or escaped is not None)
    vc.canary('canary.gate_never_dropped', not drops)
    WG = 'worker_handed_the_gate'
    handed = []
    for j in spawned:
        s, t = j.kw.get('operator_indexed'), j.kw.get('resource_indexed')
        before = G.log[:j.spawn_at]
        seen_on = any(ev[0] == 'is_on' and ev[1] for ev in before)
        vc.ensure(WG, s is None or s is tset)
        vc.ensure(WG, tset is None or s is tset or seen_on)
        last_spawn = max([i for i, ev in enumerate(before) if ev[0] in ('spawn', 'spawn-later')][:-1] or [-1])
        made = [ev for ev in before[last_spawn + 1:] if ev[0] == 'make_toggle']
        must = gated and not seen_on
        vc.ensure(WG, (len(made) == 1 and t is made[0][1] and s is tset) if must else (t is None or (len(made) == 1 and t is made[0][1] and s is tset)))
        vc.canary('canary.always_gated', t is not None)
        if t is not None:
            handed.append(t)
    for i, ev in enumerate(G.log):
        if ev[0] == 'make_toggle':
            vc.ensure(WG, gated and not ev[2] and i > 0 and G.log[i - 1][0] == 'is_on' and not G.log[i - 1][1])
    vc.ensure(WG, (len(handed) == len(G.made) and all(any(t is m for t in handed) for m in G.made)) or escaped is not None)

    # ------------------------------------------------------------------ how it ended
    WF = 'worker_failure_escalates'
    vc.canary('canary.never_fails', escaped is None)
    if G.failed is not None:
        vc.ensure(WF, isinstance(escaped, RuntimeError) and escaped is not G.failed and escaped.__cause__ is G.failed)
    elif G.cancelled:
        vc.ensure(WF, isinstance(escaped, asyncio.CancelledError))
    else:
        vc.ensure(WF, escaped is None)

    DR = 'drains_on_exit'
    eos_puts = [(q, at) for q, it, at in G.puts if it is EOS]
    vc.canary('canary.no_eos', not eos_puts)
    vc.canary('canary.never_times_out', not G.timeout_fired)
    vc.ensure(DR, G.exit_snapshot is not None)
    for key, q in (G.exit_snapshot or {}).items():
        mine = [at for qq, at in eos_puts if qq is q]
        last = max(at for qq, _, at in G.puts if qq is q)
        vc.ensure(DR, len(mine) == 1 and mine[0] == last)
    vc.ensure(DR, all(any(q is qq for qq in (G.exit_snapshot or {}).values()) for q, _ in eos_puts))
    vc.ensure(DR, len(G.close_begun) == 1 and G.close_done == 1)
    if len(G.close_begun) == 1:
        depleted, at = G.close_begun[0]
        vc.ensure(DR, depleted)
        vc.ensure(DR, all(a < at for _, _, a in G.puts))
    vc.ensure(DR, all(t.done() for t in G.tasks))
    return ('watcher', scenario, has_set, has_kind, len(G.items), len(spawned), G.interfered, type(escaped).__name__,
            G.recancelled, G.exit_mode, G.timeout_fired)
