"""F-C15-1: registries._matches_field_values tests the value= criterion of EVERY changing handler against the old state as
well as the new one ("values = [new, old]"), although docs/filters.rst restricts the old-or-new semantics to the update
handlers (@on.update, @on.field): "For all other handlers ... the field=/value= filters check the resource in its
current ---and only--- state".  Consequences: a creation handler declared for "field absent" fires on an object that HAS
the field (a created object has no old state => "absent"); a deletion/resume handler with value='a' fires on an object whose
field is 'b' now but was 'a' at the last handling.
Run: /venv/bin/python /verif/findings/F-C15-1.py   (exit 1 = defect reproduced)"""
import sys
import kopf
from kopf._cogs.structs import bodies, diffs, patches, references
from kopf._core.intents import causes

registry = kopf.OperatorRegistry()

@kopf.on.create('kopfexamples', registry=registry, field='spec.x', value=kopf.ABSENT)
def created_without_x(**_): pass

@kopf.on.delete('kopfexamples', registry=registry, field='spec.x', value='a')
def deleted_with_x_a(**_): pass

resource = references.Resource('kopf.dev', 'v1', 'kopfexamples')
def cause(reason, old, new):
    body = bodies.Body({'metadata': {'name': 'obj'}, **new})
    return causes.ChangingCause(logger=None, indices={}, memo=None, resource=resource, patch=patches.Patch(), body=body,
                                initial=False, reason=reason, diff=diffs.diff(old, new), old=old, new=new)

hit1 = [h.id for h in registry._changing.get_handlers(cause(causes.Reason.CREATE, None, {'spec': {'x': 1}}))]
hit2 = [h.id for h in registry._changing.get_handlers(cause(causes.Reason.DELETE, {'spec': {'x': 'a'}}, {'spec': {'x': 'b'}}))]
print("object created WITH spec.x=1; handlers selected:", hit1)
print("object deleted with spec.x='b' (was 'a' when last handled); handlers selected:", hit2)
if hit1 or hit2:
    print('REPRODUCED: handlers whose value= criterion does not hold on the current state are selected')
    sys.exit(1)
print('not reproduced')
