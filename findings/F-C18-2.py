"""
F-C18-2 (property C18, obligation A5.merge_fidelity / A5.fns_fidelity): Patch.as_json_patch cannot replace a
non-mapping value of the reviewed object by a mapping (a type change that RFC 7386 merge-patches do allow):
  * a non-empty mapping over a scalar/list/null  -> TypeError out of dicts.ensure()/dicts.remove();
  * an empty mapping over a scalar               -> silently dropped (the JSON patch is empty).
Through the real admission path the TypeError escapes serve_admission_request (the webhook server answers 500).

Run:  cd /repo && /venv/bin/python /verif/findings/F-C18-2.py      exit 1 = the defect is present, 0 = absent.
"""
import asyncio
import base64
import json
import sys

import kopf
from kopf._cogs.configs.configuration import OperatorSettings
from kopf._cogs.structs.patches import Patch
from kopf._cogs.structs.references import Insights, Resource
from kopf._core.engines.admission import serve_admission_request
from kopf._core.engines.indexing import OperatorIndexers
from kopf._core.intents.registries import OperatorRegistry
from kopf._core.reactor.inventory import ResourceMemories

RESOURCE = Resource('kopf.dev', 'v1', 'kopfexamples', namespaced=True)


async def review(obj):
    registry = OperatorRegistry()
    insights = Insights()
    insights.webhook_resources.add(RESOURCE)

    @kopf.on.mutate(RESOURCE.group, RESOURCE.version, RESOURCE.plural, registry=registry)
    def structure_the_field(patch, **_):
        patch.spec['field'] = {'value': 'x', 'unit': 'pcs'}      # merge-patch {'spec': {'field': {...}}}: scalar -> mapping

    request = {
        'apiVersion': 'admission.k8s.io/v1', 'kind': 'AdmissionReview',
        'request': {
            'uid': 'uid1',
            'kind': {'group': RESOURCE.group, 'version': RESOURCE.version, 'kind': 'KopfExample'},
            'resource': {'group': RESOURCE.group, 'version': RESOURCE.version, 'resource': RESOURCE.plural},
            'subResource': None, 'userInfo': {'username': 'user1', 'uid': 'useruid1', 'groups': ['group1']},
            'name': 'n1', 'namespace': 'ns1', 'operation': 'CREATE', 'object': obj, 'oldObject': None, 'dryRun': False,
        },
    }
    response = await serve_admission_request(
        request, settings=OperatorSettings(), registry=registry, insights=insights,
        memories=ResourceMemories(), memobase=object(), indices=OperatorIndexers().indices)
    return json.loads(base64.b64decode(response['response'].get('patch', 'W10=')))


def main() -> int:
    bad = 0
    for body, patch in [({'spec': 'x'}, {'spec': {'a': 1}}), ({'spec': None}, {'spec': {'a': 1}}),
                        ({'spec': [0]}, {'spec': {'a': None}}), ({'spec': 'x'}, {'spec': {}})]:
        try:
            ops = Patch(patch).as_json_patch(body)
            print(f'body={body} merge-patch={patch} -> json-patch={ops}')
            if not ops:
                print('   DEFECT: the type change is silently dropped (RFC 7386 result: spec == {})')
                bad += 1
        except TypeError as e:
            print(f'body={body} merge-patch={patch} -> DEFECT: TypeError: {e}')
            bad += 1
    obj = {'apiVersion': 'kopf.dev/v1', 'kind': 'KopfExample', 'metadata': {'name': 'n1', 'namespace': 'ns1'},
           'spec': {'field': 'x'}}
    try:
        print('admission review ->', asyncio.run(review(obj)))
    except TypeError as e:
        print(f'admission review of {obj["spec"]} with patch.spec["field"] = {{...}} -> DEFECT: TypeError: {e}')
        bad += 1
    return 1 if bad else 0


if __name__ == '__main__':
    sys.exit(main())
