"""F-C03-2 (contract G5r.reload_is_stable; fixed in repo 64939e8): with a progress storage that keeps the
nulls -- AnnotationsProgressStorage(verbose=True) / SmartProgressStorage(verbose=True) -- State.store() re-wrote the IDENTICAL
record of an unchanged (still sleeping) handler in every cycle, because it compared the nulls-dropped record with the
fetched one that still had its nulls.  The patch is then non-empty, application.apply() skips the sleep "because of the patch",
the server sees no change and sends no event: a handler that raised TemporaryError is never retried (C03, C11).
Run: cd /repo && /venv/bin/python /verif/findings/F-C03-2.py      (exit 1 = the identical record is re-stored)"""
import asyncio, sys
from kopf._cogs.configs import progress
from kopf._cogs.structs import bodies, patches
from kopf._core.actions import progression, execution
from kopf._core.intents import handlers, causes


async def main():
    bad = 0
    for verbose in (False, True):
        st = progress.AnnotationsProgressStorage(verbose=verbose)
        h = handlers.ChangingHandler(fn=lambda **_: None, id='fn', param=None, errors=None, timeout=None, retries=None, backoff=None,
                                     selector=None, labels=None, annotations=None, when=None, field=None, value=None, old=None, new=None,
                                     field_needs_change=None, initial=None, deleted=None, requires_finalizer=None, reason=causes.Reason.CREATE)
        body = {'metadata': {'name': 'x'}}
        state = progression.State.from_storage(body=bodies.Body(body), storage=st, handlers=[h]).with_handlers([h])
        state = state.with_outcomes({h.id: execution.Outcome(final=False, delay=3600, exception=Exception('temporary'))})
        p = patches.Patch()
        state.store(body=bodies.Body(body), patch=p, storage=st)
        body['metadata']['annotations'] = dict(p['metadata']['annotations'])
        # the next cycle: nothing happened meanwhile, the handler still sleeps
        state2 = progression.State.from_storage(body=bodies.Body(body), storage=st, handlers=[h]).with_handlers([h])
        p2 = patches.Patch()
        state2.store(body=bodies.Body(body), patch=p2, storage=st)
        print(f'verbose={verbose}: the second cycle writes {dict(p2)!r:.120}')
        bad += bool(p2)
    return 1 if bad else 0

sys.exit(asyncio.run(main()))
