"""F-C04-2: diffs.diff() uses Python equality, so a leaf flipping between a bool and the equal int
(true <-> 1, false <-> 0) is not a change: the diff is empty although the JSON documents differ.
Run: /venv/bin/python /verif/findings/F-C04-2.py   (exit 1 = defect reproduced)"""
import sys
from kopf._cogs.structs import diffs

old = {'spec': {'replicas': 1, 'enabled': False}}
new = {'spec': {'replicas': True, 'enabled': 0}}
d = diffs.diff(old, new)
print('old =', old)
print('new =', new)
print('diff(old, new) =', d)
if old['spec']['replicas'] is not new['spec']['replicas'] and len(d) == 0:
    print('REPRODUCED: the JSON documents differ (1 vs true, false vs 0) but the diff is empty -> no update handler would run')
    sys.exit(1)
print('not reproduced')
