"""F-C19-3: a DELETED watch-event of a namespace whose last reported status still carries a termination condition with
status "True" (e.g. NamespaceContentRemaining) does not stop serving the namespace: revise_namespaces treats
"deleted and blockers" as "termination pending" even when the event type says the namespace is really gone.
Run: /venv/bin/python /verif/findings/F-C19-3.py"""
import asyncio, sys
from kopf._cogs.structs import references
from kopf._core.reactor import observation

async def main():
    insights = references.Insights()
    added = {'type': 'ADDED', 'object': {'metadata': {'name': 'ns1'}}}
    deleted = {'type': 'DELETED', 'object': {
        'metadata': {'name': 'ns1', 'deletionTimestamp': '2026-01-01T00:00:00Z'},
        'status': {'phase': 'Terminating', 'conditions': [
            {'type': 'NamespaceContentRemaining', 'status': 'True', 'reason': 'SomeResourcesRemain', 'message': '...'}]}}}
    await observation.process_discovered_namespace_event(raw_event=added, namespaces=['ns*'], insights=insights)
    print('after ADDED  :', sorted(insights.namespaces))
    await observation.process_discovered_namespace_event(raw_event=deleted, namespaces=['ns*'], insights=insights)
    print('after DELETED:', sorted(insights.namespaces))
    bad = 'ns1' in insights.namespaces
    print('VIOLATION: the namespace was DELETED and is still served' if bad else 'ok')
    sys.exit(1 if bad else 0)
asyncio.run(main())
