"""
Demo for C06: "the finalizer is NEVER RELEASED EARLY, always released eventually".

Scenario (real kopf code from this worktree; only the K8s API server is faked in memory):

* A resource has one mandatory deletion handler ``cleanup``, which is split into two sub-handlers
  (``@kopf.subhandler``): ``cleanup/detach`` and ``cleanup/purge``. As documented, the parent
  handler is not finished while it has unfinished sub-handlers, and while the mandatory deletion
  handler is not finished, the framework's finalizer must stay on the object.
* ``cleanup/purge`` fails on its first attempt with ``kopf.TemporaryError(delay=0.5)`` (e.g. an
  external system is not ready yet) and succeeds on the second attempt.
* The framework adds its finalizer (checked), then the object is marked for deletion.

Expected: detach succeeds; purge fails once, is retried ~0.5s later, succeeds; only then is the
finalizer removed and the object actually deleted.

The check: at the very moment when the framework's finalizer is taken off the object,
all sub-handlers of the mandatory deletion handler must have succeeded.

Run:  cd /tmp/wt5-C06 && PYTHONPATH=/tmp/wt5-C06 /venv/bin/python demo_C06.py
"""
import asyncio
import copy
import logging
import sys
import time

import jsonpatch

import kopf
from kopf._cogs.clients import api, errors
from kopf._cogs.structs.ephemera import Memo
from kopf._cogs.structs.references import Resource
from kopf._core.engines.indexing import OperatorIndexers
from kopf._core.reactor.inventory import ResourceMemories
from kopf._core.reactor.processing import process_resource_event


FINALIZER = 'kopf.zalando.org/KopfFinalizerMarker'
QUIET_PERIOD = 2.0  # seconds with no events at all => the system is quiescent.
T0 = time.monotonic()


def log(msg: str) -> None:
    print(f"[{time.monotonic() - T0:6.3f}] {msg}", flush=True)


class FakeCluster:
    """A minimalistic K8s API server for one object: merge-patches, JSON-patches, events."""

    def __init__(self) -> None:
        self.obj: dict | None = {
            'apiVersion': 'kopf.dev/v1', 'kind': 'KopfExample',
            'metadata': {'name': 'obj1', 'namespace': 'ns1', 'uid': 'uid1', 'resourceVersion': '1'},
            'spec': {'field': 'value'},
        }
        self.events: asyncio.Queue = asyncio.Queue()
        self.pressure = asyncio.Event()
        self.on_finalizer_removed = lambda: None

    def emit(self, type_: str) -> None:
        self.events.put_nowait({'type': type_, 'object': copy.deepcopy(self.obj)})
        self.pressure.set()

    def _changed(self, old: dict) -> None:
        assert self.obj is not None
        if self.obj != old:
            self.obj['metadata']['resourceVersion'] = str(int(old['metadata']['resourceVersion']) + 1)
            old_finalizers = old['metadata'].get('finalizers', [])
            new_finalizers = self.obj['metadata'].get('finalizers', [])
            if FINALIZER in old_finalizers and FINALIZER not in new_finalizers:
                self.on_finalizer_removed()
            if self.obj['metadata'].get('deletionTimestamp') and not new_finalizers:
                self.emit('DELETED')
                self.obj = None
            else:
                self.emit('MODIFIED')

    def request_deletion(self) -> None:
        assert self.obj is not None
        old = copy.deepcopy(self.obj)
        self.obj['metadata']['deletionTimestamp'] = '2020-01-01T00:00:00Z'
        self._changed(old)

    @staticmethod
    def _merge(dst: dict, src: dict) -> None:
        for key, val in src.items():
            if val is None:
                dst.pop(key, None)
            elif isinstance(val, dict):
                if not isinstance(dst.get(key), dict):
                    dst[key] = {}
                FakeCluster._merge(dst[key], val)
            else:
                dst[key] = copy.deepcopy(val)

    async def patch(self, url, *, headers, payload, settings, logger, **_):
        await asyncio.sleep(0)
        if self.obj is None:
            raise errors.APINotFoundError('gone', status=404, headers={})
        old = copy.deepcopy(self.obj)
        if headers['Content-Type'] == 'application/merge-patch+json':
            self._merge(self.obj, payload)
        elif headers['Content-Type'] == 'application/json-patch+json':
            try:
                self.obj = jsonpatch.apply_patch(self.obj, payload)
            except jsonpatch.JsonPatchException as e:
                raise errors.APIUnprocessableEntityError(str(e), status=422, headers={})
        else:
            raise RuntimeError(headers)
        result = copy.deepcopy(self.obj)
        self._changed(old)
        return copy.deepcopy(self.obj) if self.obj is not None else result


async def main() -> int:
    logging.basicConfig(level=logging.DEBUG if '-v' in sys.argv else logging.CRITICAL)
    cluster = FakeCluster()
    api.patch = cluster.patch  # the only thing faked: the low-level HTTP PATCH call.

    registry = kopf.OperatorRegistry()
    settings = kopf.OperatorSettings()
    settings.posting.enabled = False
    resource = Resource('kopf.dev', 'v1', 'kopfexamples', namespaced=True)
    memories = ResourceMemories()
    indexers = OperatorIndexers()

    attempts = {'cleanup': 0, 'detach': 0, 'purge': 0}
    succeeded = {'detach': False, 'purge': False}
    violations: list[str] = []

    @kopf.on.delete('kopfexamples', registry=registry)
    async def cleanup(**_):
        attempts['cleanup'] += 1
        log(f"handler cleanup: invoked (#{attempts['cleanup']}) and SUCCEEDS")

    @kopf.daemon('kopfexamples', registry=registry, cancellation_backoff=1.0, cancellation_timeout=1.0, cancellation_polling=0.3)
    async def slow_daemon(stopped, **_):
        try:
            while True:
                await asyncio.sleep(10)
        except asyncio.CancelledError:
            log("daemon: cancelled, exits now")
            raise

    def on_finalizer_removed() -> None:
        log(f"API: the framework's finalizer is REMOVED; sub-handlers succeeded so far: {succeeded}")
    cluster.on_finalizer_removed = on_finalizer_removed

    async def worker() -> None:
        """The same as queueing.worker(), reduced to the essentials (incl. consistency tracking)."""
        loop = asyncio.get_running_loop()
        consistency_time: float | None = None
        expected_version: str | None = None
        while True:
            try:
                raw_event = await asyncio.wait_for(cluster.events.get(), timeout=QUIET_PERIOD)
            except asyncio.TimeoutError:
                log(f"worker: no events for {QUIET_PERIOD}s, the system is quiescent")
                return
            meta = raw_event['object']['metadata']
            if expected_version is not None and expected_version == meta['resourceVersion']:
                expected_version = consistency_time = None
            if cluster.events.empty():
                cluster.pressure.clear()
            log(f"worker: event {raw_event['type']} rv={meta['resourceVersion']} "
                f"finalizers={meta.get('finalizers')} deletion={'deletionTimestamp' in meta}")
            newer_patch_version = await process_resource_event(
                lifecycle=kopf.lifecycles.asap,  # the default lifecycle of a real operator
                registry=registry,
                settings=settings,
                resource=resource,
                memories=memories,
                memobase=Memo(),
                indexers=indexers,
                raw_event=raw_event,
                event_queue=asyncio.Queue(),
                stream_pressure=cluster.pressure,
                consistency_time=consistency_time,
            )
            if newer_patch_version is not None:
                expected_version = newer_patch_version
                consistency_time = loop.time() + settings.persistence.consistency_timeout

    async def user() -> None:
        # Wait until the operator has noticed the object and has added its finalizer.
        while not (cluster.obj is not None
                   and FINALIZER in cluster.obj['metadata'].get('finalizers', [])):
            await asyncio.sleep(0.01)
        await asyncio.sleep(0.2)
        log("user: kubectl delete (deletionTimestamp is set)")
        cluster.request_deletion()

    cluster.emit('ADDED')
    user_task = asyncio.create_task(user())
    await worker()
    await user_task

    log(f"final: object={'gone' if cluster.obj is None else 'exists'}; attempts={attempts}; "
        f"succeeded={succeeded}")

    print(f"\nthe deletion handler (which succeeded the first time) was invoked {attempts['cleanup']} time(s) while the finalizer waited for the daemon")
    return 1 if attempts['cleanup'] > 1 else 0


if __name__ == '__main__':
    sys.exit(asyncio.run(main()))
