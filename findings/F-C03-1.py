"""F-C03-1 (C03, obligation A1.no_lost_retrigger): application.apply() drops a pending delay when the
accumulated patch is non-empty but produces no request. A patch that carries only transformation fns whose
effect is already present in the body (e.g. the carried-over `allow_deletion` after somebody else removed the
finalizer) is truthy, so apply() "skips the sleep because of the patch" -- but patch_obj computes no JSON-patch
ops and sends nothing: no PATCH (no echo), no sleep, no touch. The delayed handler/daemon-stop is re-triggered
by nothing. (Same for delay == 0.)
Run: /venv/bin/python /verif/findings/F-C03-1.py   (exit 0 = reproduced)"""
import asyncio, functools, logging, sys, time
import kopf
from kopf._cogs.clients import api
from kopf._cogs.configs import configuration
from kopf._cogs.structs import bodies, finalizers, patches, references
from kopf._core.actions import application

requests = []


async def fake_patch(url, *, payload, headers, **_):
    requests.append((url, headers['Content-Type'], payload))
    return {'metadata': {'resourceVersion': '2'}}

api.patch = fake_patch
settings = configuration.OperatorSettings()
resource = references.Resource('kopf.dev', 'v1', 'kopfexamples', namespaced=True, subresources=frozenset({'status'}))
# the body no longer has the finalizer; the patch still carries the transformation that removes it
body = bodies.Body({'metadata': {'namespace': 'ns1', 'name': 'obj1', 'uid': 'u1', 'resourceVersion': '1'}, 'spec': {}})
patch = patches.Patch(body=body, fns=[functools.partial(finalizers.allow_deletion, finalizer=settings.persistence.finalizer)])


async def main(delays):
    pressure = asyncio.Event()
    t0 = time.monotonic()
    out = await application.apply(settings=settings, resource=resource, body=body, patch=patch, delays=delays,
                                  logger=logging.getLogger('repro'), stream_pressure=pressure)
    return out, time.monotonic() - t0, pressure.is_set()

ok = True
for delays in ([3.0], [0]):
    requests.clear()
    (applied, version, remaining), took, pressed = asyncio.run(main(delays))
    print(f'delays={delays}: patch truthy={bool(patch)} -> applied={applied} version={version} remaining={remaining} '
          f'requests={requests} slept={took:.3f}s stream_pressure={pressed}')
    ok = ok and not requests and took < 1.0 and not pressed and applied is False
print('pending delay dropped: no PATCH, no sleep, no touch:', ok)
sys.exit(0 if ok else 1)
