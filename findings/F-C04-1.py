"""F-C04-1: the default operator (prefix kopf.zalando.org) does not recognise the annotations of another
Kopf-based operator whose prefix starts with `kopf.` (e.g. kopf.dev): such an operator stores no
`<prefix>/kopf-managed` marker (conventions._store_marker skips prefixes starting with `kopf.`) and its prefix is
not a known one, so its progress/diff-base/touch annotations are part of the first operator's essence: every
write of operator B is an essential change for operator A (ping-pong).
Run: /venv/bin/python /verif/findings/F-C04-1.py   (exit 1 = defect reproduced)"""
import sys
from kopf._cogs.configs import diffbase, progress
from kopf._cogs.structs import bodies, patches

a_progress, a_diffbase = progress.SmartProgressStorage(), diffbase.AnnotationsDiffBaseStorage()            # operator A: defaults
b_progress = progress.AnnotationsProgressStorage(prefix='kopf.dev')                                         # operator B

def essence_a(body):
    return a_progress.clear(essence=a_diffbase.build(body=bodies.Body(body)))

body = {'metadata': {'name': 'obj'}, 'spec': {'x': 1}}
patch = patches.Patch()
b_progress.store(key='create_fn', record={'started': '2020-01-01T00:00:00', 'retries': 1}, body=bodies.Body(body), patch=patch)
print('operator B writes:', dict(patch))
after = {'metadata': {'name': 'obj', 'annotations': dict(patch['metadata']['annotations'])}, 'spec': {'x': 1}}
e0, e1 = essence_a(body), essence_a(after)
print('essence seen by A before:', e0)
print('essence seen by A after :', e1)
if e0 != e1:
    print("REPRODUCED: B's own progress record is an essential change for A (no kopf.dev/kopf-managed marker was written)")
    sys.exit(1)
print('not reproduced')
