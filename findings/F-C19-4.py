"""F-C19-4: two ambiguous selectors whose candidate sets overlap: _disable_ambiguous_selectors processes the selectors
one after another on the shrinking set, so after the first one has removed its candidates the second one is no longer
seen as ambiguous and its remaining candidate IS served -- although 2 resources of different API groups match it
(docs/resources.rst: "neither of them will be served").  Which of the two selectors wins depends on the iteration
order of a frozenset of Selectors (string hashes: PYTHONHASHSEED).
Run: /venv/bin/python /verif/findings/F-C19-4.py"""
import sys
import kopf
from kopf._cogs.structs import references
from kopf._core.intents import registries
from kopf._core.reactor import observation

VERBS = frozenset({'get', 'list', 'watch', 'patch'})
def mk(group, plural, kind):
    return references.Resource(group=group, version='v1', plural=plural, kind=kind, singular=kind.lower(),
                               namespaced=True, preferred=True, verbs=VERBS)
A, B, C = mk('example.com', 'things', 'Thing'), mk('other.io', 'things', 'Item'), mk('third.io', 'items', 'Item')

registry = registries.OperatorRegistry()
@kopf.on.event('things', registry=registry)          # matches A and B: ambiguous
def fn1(**_): pass
@kopf.on.event(kind='Item', registry=registry)       # matches B and C: ambiguous
def fn2(**_): pass

insights = references.Insights()
observation.revise_resources(group=None, insights=insights, registry=registry, resources=[A, B, C])
print('cluster:', [A, B, C])
print("'things'    matches", references.Selector('things').select([A, B, C]))
print("kind='Item' matches", references.Selector(kind='Item').select([A, B, C]))
print('watched:', insights.watched_resources)
bad = bool(insights.watched_resources)
print('VIOLATION: both selectors are ambiguous, yet a candidate of one of them is served' if bad else 'ok')
sys.exit(1 if bad else 0)
