"""F-C19-7: watching.watch_objs keeps its inactivity timer (asyncio.timeout) ARMED while the event it has just yielded is with the
consumer: the deadline is only re-scheduled when the consumer asks for the next event.  An event that arrives shortly before the
deadline therefore gets the CONSUMER cancelled (asyncio.timeout cancels the task that entered it -- the watcher task -- wherever
it currently waits): queueing.watcher ends with CancelledError, aiotasks.guard takes that for a regular cancellation, and the
watch of that (resource, namespace) is gone for good (it is not respawned, see F-C20-1).
Run: cd /repo && /venv/bin/python /verif/findings/F-C19-7.py      (exit 1 = the consumer of the stream is cancelled)"""
import asyncio, logging, sys
from kopf._cogs.clients import api, watching
from kopf._cogs.configs import configuration
from kopf._cogs.structs import references

logging.disable(logging.CRITICAL)
T = 0.5


async def main():
    settings = configuration.OperatorSettings()
    settings.watching.inactivity_timeout = T
    res = references.Resource(group='example.com', version='v1', plural='things', kind='Thing', singular='thing', shortcuts=frozenset(),
                              categories=frozenset(), subresources=frozenset(), namespaced=True, preferred=True,
                              verbs=frozenset({'list', 'watch', 'patch'}))

    async def fake_stream(**kwargs):
        await asyncio.sleep(0.8 * T)                       # an event arrives shortly before the inactivity deadline
        yield {'type': 'MODIFIED', 'object': {'metadata': {'name': 'x', 'resourceVersion': '2'}}}
        await asyncio.sleep(10 * T)
    orig, api.stream = api.stream, fake_stream
    got, cancelled_in_consumer = [], False
    try:
        async def consumer():
            nonlocal cancelled_in_consumer
            async for ev in watching.watch_objs(settings=settings, resource=res, namespace='ns', since='1',
                                                operator_pause_waiter=asyncio.get_running_loop().create_future()):
                got.append(ev)
                try:
                    await asyncio.sleep(0.5 * T)           # the consumer multiplexes the event (spawns a worker, waits for toggles ...)
                except asyncio.CancelledError:
                    cancelled_in_consumer = True
                    raise
        task = asyncio.create_task(consumer())
        try:
            await asyncio.wait_for(task, timeout=4 * T)
        except asyncio.CancelledError:
            pass
        except asyncio.TimeoutError:
            pass
        print(f'events received: {len(got)}; the CONSUMER was cancelled by the inactivity timer of the stream: {cancelled_in_consumer}')
        return 1 if cancelled_in_consumer else 0
    finally:
        api.stream = orig

sys.exit(asyncio.run(main()))
