"""F-C17-1: an indexing function returning a dict SUBCLASS (kopf.Memo) or another Mapping.
docs/indexing.rst ("Index content"): 'When an indexing function returns a dict (strictly dict --- not a generic
mapping, not even a subclass of dict, such as kopf.Memo), it is merged into the index under the key taken from the
result'; ("Unindexed collections"): any other object 'except dict' is collected under the key None.
The code (indexing.OperatorIndexer.replace) merges every collections.abc.Mapping by its keys.
Run: /venv/bin/python /verif/findings/F-C17-1.py   (exit 1 = the divergence is present)"""
import sys
import types
from kopf._cogs.structs.ephemera import Memo
from kopf._core.engines import indexing

bad = 0
for result in (Memo(k1=0), types.MappingProxyType({'k1': 0})):
    indexers = indexing.OperatorIndexers()
    indexers['fn'] = indexing.OperatorIndexer()
    body = {'metadata': {'namespace': 'ns', 'name': 'n', 'uid': 'u'}}
    from kopf._core.actions.execution import Outcome
    indexers.replace(body=body, outcomes={'fn': Outcome(final=True, result=result)})
    index = indexers.indices['fn']
    actual = {k: list(index[k]) for k in index}
    documented = {None: [result]}
    print(f'result={result!r}: index={actual!r} documented={documented!r}')
    bad += actual != documented
sys.exit(1 if bad else 0)
