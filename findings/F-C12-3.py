"""
F-C12-3 (property C12): a 429 whose Retry-After header is in the HTTP-date form (RFC 7231 sec. 7.1.3 allows
`Retry-After: Fri, 31 Dec 1999 23:59:59 GMT`) makes api.request raise ValueError from `int(float(header))`:
the 429 -- a transient failure that must be retried per error_backoffs -- is not retried, and what escalates is
a ValueError, not the APITooManyRequestsError.  (Kubernetes API servers send delay-seconds; proxies may not.)
Run:  /venv/bin/python /verif/findings/F-C12-3.py      (exit 1 = defect reproduced)
"""
import asyncio
import logging
import sys
import types

from kopf._cogs.clients import api, errors

logging.disable(logging.CRITICAL)
slept = []


class Session:
    closed = False
    calls = 0

    async def request(self, **kw):
        self.calls += 1
        return types.SimpleNamespace(status=429 if self.calls == 1 else 200,
                                     headers={'Retry-After': 'Fri, 31 Dec 1999 23:59:59 GMT'})


async def check_response(response):          # what errors.check_response does for these two statuses
    if response.status >= 400:
        raise errors.APITooManyRequestsError(None, status=response.status, headers=dict(response.headers))


async def fake_sleep(delay):
    slept.append(delay)


async def main():
    real_sleep, real_check = asyncio.sleep, errors.check_response
    asyncio.sleep, errors.check_response = fake_sleep, check_response
    session = Session()
    try:
        settings = types.SimpleNamespace(networking=types.SimpleNamespace(
            error_backoffs=[1, 2], enforce_retry_after=False, request_timeout=None, connect_timeout=None))
        context = types.SimpleNamespace(session=session, server='http://server')
        try:
            response = await api.request.__wrapped__('get', 'http://server/x', settings=settings, context=context,
                                                     logger=logging.getLogger('repro'))
        except errors.APITooManyRequestsError:
            print('escalated as the 429 itself: acceptable only with exhausted backoffs -- not the case here')
            return 1
        except Exception as e:
            print(f'VIOLATION: attempts={session.calls} slept={slept}: raised {e!r} instead of retrying the 429')
            return 1
        print(f'ok: retried, attempts={session.calls} slept={slept} final status={response.status}')
        return 0
    finally:
        asyncio.sleep, errors.check_response = real_sleep, real_check


sys.exit(asyncio.run(main()))
