"""
F-C14-1 (property C14, obligation V2.listed_preexisting_object_is_noticed): an admission review (UPDATE, DELETE or
CONNECT -- every operation but CREATE) that reaches the operator BEFORE the watch-stream's initial listing has
delivered the same object makes admission.serve_admission_request call memories.recall_memo(..., ephemeral=False).
That CREATES and REMEMBERS the object's ResourceMemory with noticed_by_listing=False.  When the listing event of the
same uid arrives, processing.process_resource_event -> memories.recall(noticed_by_listing=True) finds the existing
memory and returns it unchanged, `initial = noticed_by_listing and not fully_handled_once` is False, the cause is
NOOP instead of RESUME: the @kopf.on.resume handlers of that pre-existing, already handled object never run in this
operator process.  (Webhook servers start serving as soon as they are up; the listing of a big cluster takes time,
and `kubectl apply/patch/delete` of existing objects goes through the validating/mutating webhooks.)

Run:  cd /repo && /venv/bin/python /verif/findings/F-C14-1.py      exit 1 = the defect is present, 0 = absent.
"""
import asyncio
import json
import sys

import kopf
from kopf._cogs.configs.configuration import OperatorSettings
from kopf._cogs.structs.ephemera import Memo
from kopf._cogs.structs.references import Insights, Resource
from kopf._core.actions import application, lifecycles
from kopf._core.engines.admission import serve_admission_request
from kopf._core.engines.indexing import OperatorIndexers
from kopf._core.engines.posting import K8sEventQueue
from kopf._core.intents.registries import OperatorRegistry
from kopf._core.reactor.inventory import ResourceMemories
from kopf._core.reactor.processing import process_resource_event

RESOURCE = Resource('kopf.dev', 'v1', 'kopfexamples', namespaced=True)
SPEC = {'field': 'value'}
# an object that was fully handled by an earlier operator process: its last-handled state equals its current one
OBJ = {'apiVersion': 'kopf.dev/v1', 'kind': 'KopfExample',
       'metadata': {'name': 'n1', 'namespace': 'ns1', 'uid': 'u1', 'resourceVersion': '10',
                    'annotations': {'kopf.zalando.org/last-handled-configuration': json.dumps({'spec': SPEC}, separators=(',', ':')) + '\n'}},
       'spec': SPEC}


async def scenario(review_first: str | None) -> list[str]:
    resumed: list[str] = []
    registry = OperatorRegistry()
    insights = Insights()
    insights.webhook_resources.add(RESOURCE)

    @kopf.on.resume(RESOURCE.group, RESOURCE.version, RESOURCE.plural, registry=registry)
    def resume_fn(uid, **_):
        resumed.append(uid)

    @kopf.on.validate(RESOURCE.group, RESOURCE.version, RESOURCE.plural, registry=registry)
    def validate_fn(**_):
        pass

    settings = OperatorSettings()
    memories = ResourceMemories()
    indexers = OperatorIndexers()
    memobase = Memo()

    async def fake_patch_obj(**kwargs):          # the API is not needed to see which handlers run
        return None, None                        # "the object is gone": nothing to compare, nothing remaining
    application.patching.patch_obj = fake_patch_obj

    if review_first is not None:
        request = {
            'apiVersion': 'admission.k8s.io/v1', 'kind': 'AdmissionReview',
            'request': {
                'uid': 'review1',
                'kind': {'group': RESOURCE.group, 'version': RESOURCE.version, 'kind': 'KopfExample'},
                'resource': {'group': RESOURCE.group, 'version': RESOURCE.version, 'resource': RESOURCE.plural},
                'subResource': None, 'userInfo': {'username': 'user1', 'uid': 'useruid1', 'groups': ['group1']},
                'name': 'n1', 'namespace': 'ns1', 'operation': review_first,
                'object': OBJ, 'oldObject': OBJ, 'dryRun': False,
            },
        }
        response = await serve_admission_request(
            request, settings=settings, registry=registry, insights=insights,
            memories=memories, memobase=memobase, indices=indexers.indices)
        assert response['response']['allowed'] is True

    # the initial listing of the (re)started operator delivers the object: a pseudo-event of type None
    await process_resource_event(
        lifecycle=lifecycles.all_at_once, indexers=indexers, registry=registry, settings=settings,
        memories=memories, memobase=memobase, resource=RESOURCE, raw_event={'type': None, 'object': OBJ},
        event_queue=K8sEventQueue())
    return resumed


async def main() -> int:
    control = await scenario(None)
    print('listing only                 -> resume handler ran for', control)
    assert control == ['u1'], 'control run: the resume handler must run for a listed, previously handled object'
    bad = []
    for operation in ('CREATE', 'UPDATE', 'DELETE'):
        resumed = await scenario(operation)
        print(f'{operation} review, then listing -> resume handler ran for', resumed)
        if resumed != ['u1']:
            bad.append(operation)
    if bad:
        print(f"DEFECT: after a {'/'.join(bad)} admission review of the object, its listing event does not run the "
              f"resume handlers (memory created with noticed_by_listing=False by recall_memo)")
        return 1
    print('ok: resume handlers run regardless of earlier admission reviews')
    return 0


if __name__ == '__main__':
    sys.exit(asyncio.run(main()))
