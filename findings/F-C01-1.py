"""F-C01-1 (contract Q1.hopeless_wait_not_repeated; fixed in repo 5d76bbc): with
settings.queueing.idle_timeout = 0 a per-object worker never takes an event from its backlog.
asyncio.wait_for(backlog.get(), timeout=0) cancels the getter before its first step (CPython 3.12: `timeout <= 0` branch)
and raises TimeoutError although the queue is filled; worker() then sees a non-empty backlog and `continue`s -- forever.
Run: /venv/bin/python /verif/findings/side-observation-idle-timeout-zero-livelock.py   (exit 1 = livelock observed)"""
import asyncio, sys
from kopf._core.reactor import queueing
from kopf._cogs.configs import configuration


async def main():
    settings = configuration.OperatorSettings()
    settings.queueing.idle_timeout = 0
    processed = []

    async def processor(*, raw_event, **_):
        processed.append(raw_event)
        return None
    key = ('res', 'uid1')
    streams = {key: queueing.Stream(backlog=asyncio.Queue(), pressure=asyncio.Event())}
    await streams[key].backlog.put({'type': 'ADDED', 'object': {'metadata': {'uid': 'uid1', 'resourceVersion': '1'}}})
    streams[key].pressure.set()
    task = asyncio.create_task(queueing.worker(signaller=asyncio.Condition(), processor=processor, settings=settings,
                                               resource_indexed=None, operator_indexed=None, streams=streams, key=key))
    await asyncio.sleep(0.5)
    alive = not task.done()
    task.cancel()
    try:
        await task
    except BaseException:
        pass
    print(f'processed={len(processed)} worker still spinning after 0.5 s={alive}')
    return 1 if (alive and not processed) else 0

sys.exit(asyncio.run(main()))
