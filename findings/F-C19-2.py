"""F-C19-2: a CRD created while the CRD watch-stream is disconnected, and reported only by the re-listing after a
410 Gone, is never served: process_discovered_resource_event ignores every listed item (type None), not only those of
the initial listing (which resource_observer has covered by its own scan).  The kind is picked up only if some OTHER
CRD event of the same API group happens to arrive later.
Real resource_observer + queueing.watcher + watching.* + fetching.* + scanning.* against a fake API patched in at
api.get / api.stream.      Run: /venv/bin/python /verif/findings/F-C19-2.py"""
import asyncio, sys, urllib.parse
from unittest import mock
import kopf
from kopf._cogs.clients import api, errors
from kopf._cogs.structs import references
from kopf._core.intents import registries
from kopf._core.reactor import observation

VERBS = ['get', 'list', 'watch', 'patch', 'create', 'delete']
def res(name, kind, namespaced=True):
    return {'name': name, 'kind': kind, 'singularName': kind.lower(), 'namespaced': namespaced, 'verbs': VERBS}

class FakeAPI:
    def __init__(self):
        self.rv = 10
        self.crds = {}            # name -> rv
        self.log = []
    def create_crd(self, plural, group):
        self.rv += 1; self.crds[f'{plural}.{group}'] = self.rv
    def groups(self):
        return sorted({n.split('.', 1)[1] for n in self.crds})
    async def get(self, url, **kw):
        path = urllib.parse.urlparse(url).path
        if path == '/api':
            return {'versions': ['v1']}
        if path == '/api/v1':
            return {'resources': [res('namespaces', 'Namespace', False), res('events', 'Event')]}
        if path == '/apis':
            gs = ['apiextensions.k8s.io'] + self.groups()
            return {'groups': [{'name': g, 'preferredVersion': {'version': 'v1'}, 'versions': [{'version': 'v1'}]} for g in gs]}
        if path == '/apis/apiextensions.k8s.io/v1':
            return {'resources': [res('customresourcedefinitions', 'CustomResourceDefinition', False)]}
        if path.startswith('/apis/') and path.count('/') == 3:
            g = path.split('/')[2]
            rs = [res(n.split('.', 1)[0], n.split('.', 1)[0].capitalize()) for n in self.crds if n.split('.', 1)[1] == g]
            if not rs:
                raise errors.APINotFoundError(None, status=404, headers={})
            return {'resources': rs}
        if path == '/apis/apiextensions.k8s.io/v1/customresourcedefinitions':
            self.log.append(f'LIST  {url} -> {sorted(self.crds)} @rv={self.rv}')
            return {'kind': 'CustomResourceDefinitionList', 'metadata': {'resourceVersion': str(self.rv)},
                    'items': [{'metadata': {'name': n, 'uid': f'uid-{n}', 'resourceVersion': str(v)},
                               'spec': {'group': n.split('.', 1)[1]}} for n, v in self.crds.items()]}
        raise AssertionError(url)
    async def stream(self, url, **kw):
        since = urllib.parse.parse_qs(urllib.parse.urlparse(url).query).get('resourceVersion', [None])[0]
        n = sum(1 for l in self.log if l.startswith('WATCH')) + 1
        self.log.append(f'WATCH {url}')
        if n == 1:          # connection lost; the CRD is created while the client is disconnected
            self.create_crd('things', 'example.com')
            return
        if n == 2:          # the resume version has been compacted away meanwhile
            self.rv += 1000
            yield {'type': 'ERROR', 'object': {'kind': 'Status', 'code': 410, 'reason': 'Expired',
                                              'message': f'too old resource version: {since} ({self.rv})'}}
            return
        await asyncio.Event().wait()
        yield {}

async def main():
    fake = FakeAPI()
    settings = kopf.OperatorSettings()
    settings.watching.reconnect_backoff = 0.01
    registry = registries.OperatorRegistry()

    @kopf.on.event('example.com', 'things', registry=registry)
    def fn(**_): pass

    insights = references.Insights()
    with mock.patch.object(api, 'get', fake.get), mock.patch.object(api, 'stream', fake.stream):
        task = asyncio.create_task(observation.resource_observer(settings=settings, registry=registry, insights=insights))
        await asyncio.sleep(1.0)
        task.cancel()
        await asyncio.gather(task, return_exceptions=True)
    print('\n'.join(fake.log))
    print('CRDs that exist                :', sorted(fake.crds))
    print('resources watched by the operator:', sorted(map(repr, insights.watched_resources)))
    bad = not any(r.plural == 'things' for r in insights.watched_resources)
    print('VIOLATION: things.example.com exists, has a handler, was listed to the operator, and is not watched' if bad else 'ok')
    sys.exit(1 if bad else 0)
asyncio.run(main())
