"""F-C15-2: per-value callbacks of FIELD criteria (value=/old=/new=) receive the internal sentinel `_UNSET.token` when the
field is absent; docs/filters.rst ("Value callbacks"): "The passed value will be None if the value is absent in the
resource" (label/annotation callbacks do get None).  A callback written to the documentation, e.g.
`lambda value, **_: value is None`, never matches an object without the field, for every handler kind.
Run: /venv/bin/python /verif/findings/F-C15-2.py   (exit 1 = defect reproduced)"""
import sys
import kopf
from kopf._cogs.structs import bodies, patches, references
from kopf._core.intents import causes

registry = kopf.OperatorRegistry()
received = []

def field_is_missing(value, **_):
    received.append(value)
    return value is None

@kopf.on.event('kopfexamples', registry=registry, field='spec.x', value=field_is_missing)
def on_objects_without_x(**_): pass

resource = references.Resource('kopf.dev', 'v1', 'kopfexamples')
raw = {'metadata': {'name': 'obj'}, 'spec': {}}
cause = causes.WatchingCause(logger=None, indices={}, memo=None, resource=resource, patch=patches.Patch(), body=bodies.Body(raw),
                             type='MODIFIED', event={'type': 'MODIFIED', 'object': raw})
hit = [h.id for h in registry._watching.get_handlers(cause)]
print('object without spec.x; the callback received:', received, '; handlers selected:', hit)
if received and received[0] is not None and not hit:
    print('REPRODUCED: the callback got a sentinel instead of None, the handler declared for "field missing" is not selected')
    sys.exit(1)
print('not reproduced')
