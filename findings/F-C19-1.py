"""F-C19-1: a namespace created while the namespace watch-stream is disconnected, and reported only by the re-listing
after a 410 Gone ("too old resource version"), is never served: process_discovered_namespace_event ignores every
listed item (type None) -- not only those of the initial listing, which namespace_observer has already processed.
Real namespace_observer + queueing.watcher + watching.* + fetching.list_objs against a fake API patched in at
api.get / api.stream.      Run: /venv/bin/python /verif/findings/F-C19-1.py"""
import asyncio, sys, urllib.parse
from unittest import mock
import kopf
from kopf._cogs.clients import api
from kopf._cogs.structs import references
from kopf._core.reactor import observation

class FakeAPI:
    def __init__(self):
        self.rv = 10
        self.namespaces = {'ns1': 10}
        self.log = []
    def create(self, name):
        self.rv += 1; self.namespaces[name] = self.rv
    async def get(self, url, **kw):
        self.log.append(f'LIST  {url} -> {sorted(self.namespaces)} @rv={self.rv}')
        return {'kind': 'NamespaceList', 'apiVersion': 'v1', 'metadata': {'resourceVersion': str(self.rv)},
                'items': [{'metadata': {'name': n, 'uid': f'uid-{n}', 'resourceVersion': str(v)}} for n, v in self.namespaces.items()]}
    async def stream(self, url, **kw):
        since = urllib.parse.parse_qs(urllib.parse.urlparse(url).query).get('resourceVersion', [None])[0]
        n = sum(1 for l in self.log if l.startswith('WATCH')) + 1
        self.log.append(f'WATCH {url}')
        if n == 1:
            # the connection is lost without any event; while the client is disconnected, ns2 is created ...
            self.create('ns2')
            return
        if n == 2:
            # ... and so much else happens that the version the client resumes from has been compacted away
            self.rv += 1000
            yield {'type': 'ERROR', 'object': {'kind': 'Status', 'code': 410, 'reason': 'Expired',
                                              'message': f'too old resource version: {since} ({self.rv})'}}
            return
        await asyncio.Event().wait()        # from now on: a healthy, idle stream
        yield {}

async def main():
    fake = FakeAPI()
    settings = kopf.OperatorSettings()
    settings.watching.reconnect_backoff = 0.01
    insights = references.Insights()
    await insights.backbone.fill(resources=[references.Resource('', 'v1', 'namespaces', namespaced=False,
                                                                verbs=frozenset({'list', 'watch'}))])
    with mock.patch.object(api, 'get', fake.get), mock.patch.object(api, 'stream', fake.stream):
        task = asyncio.create_task(observation.namespace_observer(
            clusterwide=False, namespaces=['ns*'], insights=insights, settings=settings))
        await asyncio.sleep(1.0)
        task.cancel()
        await asyncio.gather(task, return_exceptions=True)
    print('\n'.join(fake.log))
    print('namespaces that exist and match "ns*":', sorted(fake.namespaces))
    print('namespaces served by the operator    :', sorted(insights.namespaces))
    bad = set(fake.namespaces) - set(insights.namespaces)
    print(f'VIOLATION: {sorted(bad)} exist, match the pattern, were listed to the operator, and are not served' if bad else 'ok')
    sys.exit(1 if bad else 0)
asyncio.run(main())
