import asyncio
import kopf
from kopf._core.actions.execution import PermanentError


async def test_timer_with_short_interval_is_not_rerun_after_a_permanent_error(
        settings, resource, dummy, k8s_mocked, simulate_cycle, looptime):

    @kopf.timer(*resource, id='fn', backoff=1.23, interval=5)
    async def fn(**kwargs):
        dummy.mock(**kwargs)
        raise PermanentError("boo!")

    event_object = {'metadata': {'finalizers': [settings.persistence.finalizer]}}
    await simulate_cycle(event_object)
    await asyncio.sleep(123)
    assert dummy.mock.call_count == 1
