"""F-C16-2: handler ids that become equal after the "safe" replacements ('/' -> '.', '<' and '>' -> '_') share one
annotation: 'fn/spec.x' (field handler of fn on spec.x) vs 'fn.spec.x', 'a<b' vs 'a_b', 'A/b' (sub-handler) vs 'A.b'
(method qualname).  The progress record of one handler is read back as the record of the other, and purging one
purges the other.  For ids longer than 63 chars the v2 hash (taken of the raw id) keeps them apart, the v1 key
(hash of the safe id; written by default) still collides.
Run: /venv/bin/python /verif/findings/F-C16-2.py   (exit 1 = defect reproduced)"""
import sys
from kopf._cogs.configs import progress
from kopf._cogs.structs import bodies, patches

storage = progress.AnnotationsProgressStorage(prefix='kopf.zalando.org', v1=True)
body = {'metadata': {'name': 'obj'}}
patch = patches.Patch()
storage.store(key='fn/spec.x', record={'started': '2020-01-01T00:00:00', 'retries': 5, 'success': True}, body=bodies.Body(body), patch=patch)
body = {'metadata': {'name': 'obj', 'annotations': dict(patch['metadata']['annotations'])}}
print('keys of fn/spec.x:', list(storage.make_keys('fn/spec.x')))
print('keys of fn.spec.x:', list(storage.make_keys('fn.spec.x')))
other = storage.fetch(key='fn.spec.x', body=bodies.Body(body))
print("record stored for 'fn/spec.x', fetched for the OTHER handler 'fn.spec.x':", other)
long_a, long_b = 'x' * 70 + '/y', 'x' * 70 + '.y'
print('long ids, v2 keys differ:', storage.make_v2_key(long_a) != storage.make_v2_key(long_b),
      '; v1 keys differ:', storage.make_v1_key(long_a) != storage.make_v1_key(long_b))
if other is not None:
    print('REPRODUCED: two different handler ids share one annotation; their records collide')
    sys.exit(1)
print('not reproduced')
