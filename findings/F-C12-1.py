"""
F-C12-1 (property C12): api.request parses the Retry-After header of a 429 as int(float(header)), which
truncates: for a fractional value the retry sleeps LESS than the server asked for
(header "0.5", backoff 0.1 -> sleeps 0.1;  header "2.5" -> sleeps 2, also with enforce_retry_after=True).
Run:  /venv/bin/python /verif/findings/F-C12-1.py      (exit 1 = defect reproduced)
"""
import asyncio
import logging
import sys
import types

from kopf._cogs.clients import api, errors

logging.disable(logging.CRITICAL)
slept = []


class Session:
    closed = False

    def __init__(self, header):
        self.calls, self.header = 0, header

    async def request(self, **kw):
        self.calls += 1
        return types.SimpleNamespace(status=429 if self.calls == 1 else 200, headers={'Retry-After': self.header})


async def check_response(response):          # what errors.check_response does for these two statuses
    if response.status >= 400:
        raise errors.APITooManyRequestsError(None, status=response.status, headers=dict(response.headers))


async def fake_sleep(delay):
    slept.append(delay)


async def attempt(header, backoffs, enforce):
    slept.clear()
    real_sleep, real_check = asyncio.sleep, errors.check_response
    asyncio.sleep, errors.check_response = fake_sleep, check_response
    try:
        settings = types.SimpleNamespace(networking=types.SimpleNamespace(
            error_backoffs=backoffs, enforce_retry_after=enforce, request_timeout=None, connect_timeout=None))
        context = types.SimpleNamespace(session=Session(header), server='http://server')
        await api.request.__wrapped__('get', 'http://server/x', settings=settings, context=context,
                                      logger=logging.getLogger('repro'))
    finally:
        asyncio.sleep, errors.check_response = real_sleep, real_check
    return list(slept)


def main():
    bad = 0
    for header, backoffs, enforce in [('3', [1], False), ('0.5', [0.1], False), ('2.5', [0.1], False), ('2.5', [1], True)]:
        waited = asyncio.run(attempt(header, backoffs, enforce))
        ok = len(waited) == 1 and waited[0] >= float(header)
        print(f'Retry-After={header} backoffs={backoffs} enforce={enforce}: slept {waited}', 'ok' if ok else 'VIOLATION: less than requested')
        bad += not ok
    return 1 if bad else 0


sys.exit(main())
