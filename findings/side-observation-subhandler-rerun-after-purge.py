"""
Triage repro: can an already-succeeded handler be invoked again because its progress record
is purged (``if state.extras: state.purge(...)``) and not re-stored (``State.store`` skips
records equal to their ``_origin``)?

Drives the REAL ``process_resource_event`` in a closed loop. Only ``kopf._cogs.clients.api.patch``
is replaced (by an in-memory fake API server). Observation is passive: a logging handler
plus a pass-through spy on ``registry._changing.get_handlers`` (disable with --pure).

Run:  PYTHONPATH=/repo /venv/bin/python repro.py [--pure] [-v]
Exit: 1 if a handler that returned successfully is invoked again while the object essence
      is unchanged since its success and no handling cycle was completed in between; else 0.
"""
import asyncio
import copy
import json
import logging
import sys

import kopf
from kopf._cogs.clients import api, errors
from kopf._cogs.configs.configuration import OperatorSettings
from kopf._cogs.structs import bodies
from kopf._cogs.structs.ephemera import Memo
from kopf._cogs.structs.references import Resource
from kopf._core.engines.indexing import OperatorIndexers
from kopf._core.intents.registries import OperatorRegistry
from kopf._core.reactor.inventory import ResourceMemories
from kopf._core.reactor.processing import process_resource_event

PURE = '--pure' in sys.argv
VERBOSE = '-v' in sys.argv
RESOURCE = Resource('kopf.dev', 'v1', 'kopfexamples', namespaced=True)
DELAY = 0.02
MAX_CYCLES = 8


# --------------------------------------------------------------------------------------------
# Fake API server: a single object; merge-patch & JSON-patch; resourceVersion bump per change.
# --------------------------------------------------------------------------------------------
def merge(dst, src):
    for k, v in src.items():
        if v is None:
            dst.pop(k, None)
        elif isinstance(v, dict):
            if not isinstance(dst.get(k), dict):
                dst[k] = {}
            merge(dst[k], v)
        else:
            dst[k] = copy.deepcopy(v)


def json_pointer(path):
    return [p.replace('~1', '/').replace('~0', '~') for p in path.split('/')[1:]]


class FakeServer:
    def __init__(self, obj):
        self.obj = copy.deepcopy(obj)
        self.obj['metadata']['resourceVersion'] = '1'
        self.patches = []  # payloads of the current cycle

    def bump(self):
        self.obj['metadata']['resourceVersion'] = str(int(self.obj['metadata']['resourceVersion']) + 1)

    def gc(self):
        md = self.obj['metadata']
        for k in ('annotations', 'labels', 'finalizers'):
            if k in md and not md[k]:
                del md[k]

    def user_edit(self, fn):
        fn(self.obj)
        self.gc()
        self.bump()

    async def patch(self, url, *, settings=None, payload=None, headers=None, timeout=None, logger=None):
        before = copy.deepcopy(self.obj)
        self.patches.append(copy.deepcopy(payload))
        ctype = (headers or {}).get('Content-Type')
        if ctype == 'application/merge-patch+json':
            merge(self.obj, payload)
        elif ctype == 'application/json-patch+json':
            work = copy.deepcopy(self.obj)
            for op in payload:
                parts = json_pointer(op['path'])
                parent = work
                for p in parts[:-1]:
                    parent = parent[int(p)] if isinstance(parent, list) else parent.setdefault(p, {})
                last = parts[-1]
                if op['op'] == 'test':
                    cur = parent[int(last)] if isinstance(parent, list) else parent.get(last)
                    if cur != op['value']:
                        raise errors.APIUnprocessableEntityError(None, 422)  # type: ignore
                elif op['op'] in ('add', 'replace'):
                    if isinstance(parent, list):
                        if last == '-':
                            parent.append(op['value'])
                        elif op['op'] == 'add':
                            parent.insert(int(last), op['value'])
                        else:
                            parent[int(last)] = op['value']
                    else:
                        parent[last] = op['value']
                elif op['op'] == 'remove':
                    if isinstance(parent, list):
                        del parent[int(last)]
                    else:
                        del parent[last]
                else:
                    raise NotImplementedError(op)
            self.obj = work
        else:
            raise NotImplementedError(ctype)
        self.gc()
        if self.obj != before:
            self.bump()
        return copy.deepcopy(self.obj)


# --------------------------------------------------------------------------------------------
# Passive observation.
# --------------------------------------------------------------------------------------------
class LogCapture(logging.Handler):
    def __init__(self):
        super().__init__(level=logging.DEBUG)
        self.lines = []

    def emit(self, record):
        self.lines.append(record.getMessage())


class Scenario:
    """One variant: a registry with counting handlers, an initial object, and scheduled edits."""

    def __init__(self, name, descr):
        self.name = name
        self.descr = descr
        self.registry = OperatorRegistry()
        self.calls = []       # (cycle, handler_name, reason, outcome)
        self.cycle = 0
        self.edits = {}       # after cycle N -> (title, fn(obj))
        self.obj = None
        self.selected = []    # spy: (reason, [ids]) per cycle
        self.edit_wait = 0.0  # seconds to wait before a user edit (lets the retry delays elapse)
        self.subs_of = {}     # parent name -> [sub names]

    def record(self, name, reason, outcome):
        self.calls.append((self.cycle, name, str(reason), outcome))

    def handler(self, name, *, fail_times=0):
        """Make a handler fn that raises TemporaryError the first `fail_times` calls (-1: forever)."""
        state = {'n': 0}
        scenario = self

        async def fn(reason, **_):
            state['n'] += 1
            if fail_times < 0 or state['n'] <= fail_times:
                scenario.record(name, reason, 'TEMPORARY-ERROR')
                raise kopf.TemporaryError(f"{name} is not ready", delay=DELAY)
            scenario.record(name, reason, 'SUCCESS')
        fn.__name__ = name
        return fn

    def parent(self, name, subs):
        scenario = self
        self.subs_of[name] = list(subs)

        async def fn(reason, **_):
            scenario.record(name, reason, 'PARENT-ENTERED')
            await kopf.execute(fns=subs)
        fn.__name__ = name
        return fn


def essence_of(settings, obj):
    body = bodies.Body(copy.deepcopy(obj))
    ess = settings.persistence.diffbase_storage.build(body=body)
    ess = settings.persistence.progress_storage.clear(essence=ess)
    return json.dumps(ess, sort_keys=True)


def short(payload):
    """Abbreviate the patch for the timeline."""
    def abbr(v):
        if isinstance(v, str) and v.startswith('{'):
            try:
                d = json.loads(v)
            except ValueError:
                return v[:40]
            if 'started' in d or 'purpose' in d:
                st = 'success' if d.get('success') else 'failure' if d.get('failure') else 'pending'
                return f"<{st} purpose={d.get('purpose')} retries={d.get('retries')}>"
            return '<essence>'
        return v
    if isinstance(payload, dict):
        out = {}
        for k, v in payload.items():
            k = k.replace('kopf.zalando.org/', 'K/')
            out[k] = short(v) if isinstance(v, (dict, list)) else abbr(v)
        return out
    if isinstance(payload, list):
        return [short(v) if isinstance(v, (dict, list)) else v for v in payload]
    return payload


async def run(sc: Scenario):
    print('=' * 100)
    print(f"VARIANT {sc.name}: {sc.descr}")
    settings = OperatorSettings()
    memories = ResourceMemories()
    indexers = OperatorIndexers()
    server = FakeServer(sc.obj)
    api_patch_orig = api.patch
    api.patch = server.patch  # THE ONLY REPLACEMENT
    cap = LogCapture()
    lg = logging.getLogger('kopf.objects')
    lg.setLevel(logging.DEBUG)
    lg.addHandler(cap)
    lg.propagate = False

    if not PURE:
        orig_get = sc.registry._changing.get_handlers

        def spy(cause, excluded=frozenset()):
            result = orig_get(cause=cause, excluded=excluded)
            sc.selected.append((str(cause.reason), [h.id for h in result]))
            return result
        sc.registry._changing.get_handlers = spy  # pass-through, instance-level

    successes = {}   # handler -> (cycle, essence, epoch)
    epoch = 0
    strict, weak = [], []
    skipped_as_done = {}  # handler -> list of (cycle, essence, reason) where selected & not invoked
    event = {'type': None, 'object': copy.deepcopy(server.obj)}
    try:
        for cyc in range(1, MAX_CYCLES + 1):
            sc.cycle = cyc
            sc.selected.clear()
            cap.lines.clear()
            server.patches.clear()
            ncalls = len(sc.calls)
            ess = essence_of(settings, event['object'])
            rv_before = server.obj['metadata']['resourceVersion']
            await process_resource_event(
                lifecycle=kopf.lifecycles.all_at_once,
                registry=sc.registry,
                settings=settings,
                resource=RESOURCE,
                indexers=indexers,
                memories=memories,
                memobase=Memo(),
                raw_event=event,
                event_queue=asyncio.Queue(),
            )
            new_calls = sc.calls[ncalls:]
            progress_lines = [l for l in cap.lines if ' is in progress' in l or 'superseded' in l
                              or ' is processed' in l or 'finalizer' in l]
            reason = next((l.split(' is in progress')[0] for l in cap.lines if ' is in progress' in l), '-')
            print(f"--- cycle {cyc}: event={event['type']} rv={event['object']['metadata']['resourceVersion']} "
                  f"labels={event['object']['metadata'].get('labels')} "
                  f"deleting={'deletionTimestamp' in event['object']['metadata']}")
            print(f"    cause: {reason}")
            for l in progress_lines:
                if ' is in progress' not in l:
                    print(f"    log: {l}")
            if not PURE:
                print(f"    selected(top-level): {sc.selected}")
            print(f"    invoked: {[(n, r, o) for _, n, r, o in new_calls]}")
            for p in server.patches:
                print(f"    patched: {short(p)}")
            if VERBOSE:
                for l in cap.lines:
                    print(f"      | {l[:200]}")

            # Violation checks.
            invoked_names = {n for _, n, _, _ in new_calls}
            for _, n, r, o in new_calls:
                if n in successes:
                    c0, ess0, ep0 = successes[n]
                    if ep0 == epoch and ess0 == ess:
                        strict.append(f"{n}: succeeded in cycle {c0}, invoked AGAIN in cycle {cyc} "
                                      f"(reason={r}); same essence, handling not completed in between")
                    elif ep0 == epoch:
                        prior = [s for s in skipped_as_done.get(n, []) if s[1] == ess]
                        if prior:
                            weak.append(f"{n}: succeeded in cycle {c0}, treated as done (skipped) in cycle "
                                        f"{prior[0][0]} for this same essence & cause, yet invoked AGAIN in "
                                        f"cycle {cyc} (reason={r})")
            for _, n, r, o in new_calls:
                if o == 'SUCCESS':
                    successes[n] = (cyc, ess, epoch)
            if not PURE:
                for rsn, ids in sc.selected:
                    for hid in ids:
                        leaf = hid.split('/')[-1]
                        if leaf in successes and leaf not in invoked_names:
                            skipped_as_done.setdefault(leaf, []).append((cyc, ess, rsn))
            for _, n, r, o in new_calls:
                if o == 'PARENT-ENTERED':
                    for sub in sc.subs_of.get(n, []):
                        if sub in successes and sub not in invoked_names:
                            skipped_as_done.setdefault(sub, []).append((cyc, ess, r))
                            print(f"    note: sub-handler {sub} was selected under {n} but skipped as already done")
            if any(' is processed' in l for l in cap.lines):
                epoch += 1

            # Next event: scheduled user edit, and/or the server-side changes of this cycle.
            if cyc in sc.edits:
                title, fn = sc.edits[cyc]
                await asyncio.sleep(sc.edit_wait)
                server.user_edit(fn)
                print(f"    >>> USER EDIT after cycle {cyc}: {title}")
            if server.obj['metadata']['resourceVersion'] == rv_before:
                print("    (quiescent: nothing changed; stop)")
                break
            event = {'type': 'MODIFIED', 'object': copy.deepcopy(server.obj)}
    finally:
        api.patch = api_patch_orig
        lg.removeHandler(cap)

    counts = {}
    for _, n, _, o in sc.calls:
        counts.setdefault(n, {}).setdefault(o, 0)
        counts[n][o] += 1
    print(f"    invocation counts: {counts}")
    for v in strict:
        print(f"    !!! STRICT VIOLATION: {v}")
    for v in weak:
        print(f"    !!! WEAK VIOLATION: {v}")
    if not strict and not weak:
        print("    no violation")
    return strict, weak


# --------------------------------------------------------------------------------------------
# Variants.
# --------------------------------------------------------------------------------------------
def base_obj(labels=None, with_diffbase=True, spec=None, finalizer=False):
    obj = {
        'apiVersion': 'kopf.dev/v1', 'kind': 'KopfExample',
        'metadata': {'name': 'obj', 'namespace': 'ns', 'uid': 'uid1'},
        'spec': spec or {'field': 'a'},
    }
    if labels:
        obj['metadata']['labels'] = dict(labels)
    if finalizer:
        obj['metadata']['finalizers'] = ['kopf.zalando.org/KopfFinalizerMarker']
    if with_diffbase:
        ess = {'spec': obj['spec']}
        if labels:
            ess['metadata'] = {'labels': dict(labels)}
        obj['metadata'].setdefault('annotations', {})['kopf.zalando.org/last-handled-configuration'] = \
            json.dumps(ess, separators=(',', ':')) + '\n'
    return obj


def drop_label(obj):
    obj['metadata'].get('labels', {}).pop('on', None)


def edit_spec(obj):
    obj['spec']['field'] = 'b'


def mark_deleted(obj):
    obj['metadata']['deletionTimestamp'] = '2026-01-01T00:00:00Z'


def v1():
    sc = Scenario('V1', "literal suspicion: R1 resume(ok), R2 resume+label filter (retrying), "
                        "U update (retrying); the label is removed after cycle 1")
    kopf.on.resume('kopfexamples', id='R1', registry=sc.registry)(sc.handler('R1'))
    kopf.on.resume('kopfexamples', id='R2', labels={'on': kopf.PRESENT}, registry=sc.registry)(sc.handler('R2', fail_times=-1))
    kopf.on.update('kopfexamples', id='U', registry=sc.registry)(sc.handler('U', fail_times=2))
    sc.obj = base_obj(labels={'on': 'yes'})
    sc.edits[1] = ("remove label 'on'", drop_label)
    return sc


def v2():
    sc = Scenario('V2', "R1 stacked resume+update (same id, ok), R2 resume+label filter (retrying), "
                        "U update (retrying); label removed after cycle 1")
    fn = sc.handler('R1')
    kopf.on.resume('kopfexamples', id='R1', registry=sc.registry)(fn)
    kopf.on.update('kopfexamples', id='R1', registry=sc.registry)(fn)
    kopf.on.resume('kopfexamples', id='R2', labels={'on': kopf.PRESENT}, registry=sc.registry)(sc.handler('R2', fail_times=-1))
    kopf.on.update('kopfexamples', id='U', registry=sc.registry)(sc.handler('U', fail_times=2))
    sc.obj = base_obj(labels={'on': 'yes'})
    sc.edits[1] = ("remove label 'on'", drop_label)
    return sc


def v3():
    sc = Scenario('V3', "top-level, ESSENCE UNCHANGED, update->delete: listed object differs from its "
                        "diff-base (UPDATE); A stacked update+delete (ok), U update-only (retrying), "
                        "R resume (ok); marked for deletion after cycle 1")
    fn = sc.handler('A')
    kopf.on.update('kopfexamples', id='A', registry=sc.registry)(fn)
    kopf.on.delete('kopfexamples', id='A', registry=sc.registry)(fn)
    kopf.on.update('kopfexamples', id='U', registry=sc.registry)(sc.handler('U', fail_times=-1))
    kopf.on.resume('kopfexamples', id='R', deleted=True, registry=sc.registry)(sc.handler('R'))
    kopf.on.delete('kopfexamples', id='D', registry=sc.registry)(sc.handler('D', fail_times=2))
    sc.obj = base_obj(finalizer=True)
    sc.obj['spec']['field'] = 'b'  # differs from the diff-base
    sc.edits[1] = ("kubectl delete (deletionTimestamp set; finalizer blocks)", mark_deleted)
    return sc


def v4():
    sc = Scenario('V4', "two filters flipping: R1 resume (ok), R2 resume+label 'on' (retrying), "
                        "R3 resume+label ABSENT (retrying), U update (retrying); label removed after "
                        "cycle 1 and restored after cycle 3")
    kopf.on.resume('kopfexamples', id='R1', registry=sc.registry)(sc.handler('R1'))
    kopf.on.resume('kopfexamples', id='R2', labels={'on': kopf.PRESENT}, registry=sc.registry)(sc.handler('R2', fail_times=-1))
    kopf.on.resume('kopfexamples', id='R3', labels={'on': kopf.ABSENT}, registry=sc.registry)(sc.handler('R3', fail_times=-1))
    kopf.on.update('kopfexamples', id='U', registry=sc.registry)(sc.handler('U', fail_times=-1))
    sc.obj = base_obj(labels={'on': 'yes'})
    sc.edits[1] = ("remove label 'on'", drop_label)
    sc.edits[3] = ("restore label 'on' (essence back to the diff-base => RESUME again)",
                   lambda o: o['metadata'].setdefault('labels', {}).__setitem__('on', 'yes'))
    return sc


def v5():
    sc = Scenario('V5', "SUB-HANDLERS: P stacked resume+update runs kopf.execute(S1 ok, S2 retrying); "
                        "R2 resume+label filter (retrying); label removed after cycle 1")
    subs = {'S1': sc.handler('S1'), 'S2': sc.handler('S2', fail_times=-1)}
    fn = sc.parent('P', subs)
    kopf.on.resume('kopfexamples', id='P', registry=sc.registry)(fn)
    kopf.on.update('kopfexamples', id='P', registry=sc.registry)(fn)
    kopf.on.resume('kopfexamples', id='R2', labels={'on': kopf.PRESENT}, registry=sc.registry)(sc.handler('R2', fail_times=-1))
    sc.obj = base_obj(labels={'on': 'yes'})
    sc.edits[1] = ("remove label 'on'", drop_label)
    return sc


def v6():
    sc = Scenario('V6', "SUB-HANDLERS, ESSENCE UNCHANGED: P stacked resume+delete runs "
                        "kopf.execute(S1 ok, S2 retrying); R2 resume-only (retrying); the object is "
                        "marked for deletion after cycle 1 (deletionTimestamp is not in the essence)")
    subs = {'S1': sc.handler('S1'), 'S2': sc.handler('S2', fail_times=-1)}
    fn = sc.parent('P', subs)
    kopf.on.resume('kopfexamples', id='P', registry=sc.registry)(fn)
    kopf.on.delete('kopfexamples', id='P', registry=sc.registry)(fn)
    kopf.on.resume('kopfexamples', id='R2', registry=sc.registry)(sc.handler('R2', fail_times=-1))
    sc.obj = base_obj(finalizer=True)
    sc.edits[1] = ("kubectl delete (deletionTimestamp set; finalizer blocks)", mark_deleted)
    return sc


def v7():
    sc = v5()
    sc.name = 'V7'
    sc.descr = "same as V5, but the edit comes after the retry delay has elapsed (P is awake in cycle 2)"
    sc.edit_wait = DELAY * 3
    return sc


def v8():
    sc = v6()
    sc.name = 'V8'
    sc.descr = "same as V6, but the deletion comes after the retry delay has elapsed (P is awake in cycle 2)"
    sc.edit_wait = DELAY * 3
    return sc


async def main():
    all_strict, all_weak = [], []
    only = [a for a in sys.argv[1:] if a.startswith('V')]
    for make in (v1, v2, v3, v4, v5, v6, v7, v8):
        sc = make()
        if only and sc.name not in only:
            continue
        strict, weak = await run(sc)
        all_strict += [f"{sc.name}: {v}" for v in strict]
        all_weak += [f"{sc.name}: {v}" for v in weak]
    print('=' * 100)
    print(f"SUMMARY: strict violations: {len(all_strict)}; weak violations: {len(all_weak)}")
    for v in all_strict:
        print(f"  STRICT {v}")
    for v in all_weak:
        print(f"  WEAK   {v}")
    print(f"EXIT {1 if all_strict else 0}")
    return 1 if all_strict else 0


if __name__ == '__main__':
    sys.exit(asyncio.run(main()))
