"""
F-C11-1 (property C11/C09 via invocation.invoke; obligations KC10.awaitable_iff_async,
KC10.partials_and_wrappers_are_transparent): invocation.is_async_fn decides whether invoke() awaits the handler in the
loop or runs it in the executor's thread.  For a decorated wrapper it follows `__wrapped__` BEFORE looking at the
wrapper itself, so a universal `async def` decorator (functools.wraps) applied to a SYNC handler is classified as sync:
the wrapper is called in a thread, returns a coroutine that nobody awaits -- the handler's body never runs -- and the
coroutine object is passed on as the handler's result.  (kopf/_core/actions/invocation.py: "Both sync & async functions
are supported, so as their partials. Also, decorated wrappers and lambdas are recognized.")

Run:  cd /repo && /venv/bin/python /verif/findings/F-C11-1.py      exit 1 = the defect is present, 0 = absent.
"""
import asyncio
import functools
import inspect
import sys
import warnings

from kopf._core.actions.invocation import invoke, is_async_fn

ran = []


def handler(**_):
    ran.append('handler body')
    return {'done': True}


def timed(fn):
    """a decorator usable on sync and async handlers alike"""
    @functools.wraps(fn)
    async def wrapper(**kwargs):
        r = fn(**kwargs)
        return (await r) if inspect.isawaitable(r) else r
    return wrapper


wrapped = timed(handler)


async def main():
    return await invoke(wrapped)

warnings.simplefilter('ignore', RuntimeWarning)
result = asyncio.run(main())
print(f'is_async_fn(wrapped) = {is_async_fn(wrapped)}   (calling it returns an awaitable: {inspect.iscoroutinefunction(wrapped)})')
print(f'invoke(wrapped) returned {result!r}; handler body ran: {bool(ran)}')
defect = (not is_async_fn(wrapped)) or inspect.iscoroutine(result) or not ran
if inspect.iscoroutine(result):
    result.close()
print('DEFECT PRESENT' if defect else 'defect absent')
sys.exit(1 if defect else 0)
