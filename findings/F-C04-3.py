"""F-C04-3: DiffBaseStorage.build() raises TypeError when the path of an extra field (= the `field=` of any
registered handler, see processing._detect_causes) runs through a value that is not a mapping, e.g. a handler on
`spec.x.y` and an object whose spec.x is a string.  dicts.cherrypick silences KeyError only.  The change that made
spec.x a string is therefore not detected as a change: cause detection crashes for this object on every event.
Run: /venv/bin/python /verif/findings/F-C04-3.py   (exit 1 = defect reproduced)"""
import sys
from kopf._cogs.configs import diffbase
from kopf._cogs.structs import bodies

storage = diffbase.AnnotationsDiffBaseStorage()
before = {'metadata': {'name': 'obj'}, 'spec': {'x': {'y': 1}}}
after = {'metadata': {'name': 'obj'}, 'spec': {'x': 'text'}}
print('essence before:', storage.build(body=bodies.Body(before), extra_fields=['spec.x.y']))
try:
    print('essence after :', storage.build(body=bodies.Body(after), extra_fields=['spec.x.y']))
except TypeError as e:
    print('REPRODUCED: build() raised TypeError:', e)
    sys.exit(1)
print('not reproduced')
