"""F-C16-3: legacy v1 keys (v1=True is the default) with a prefix of 55..189 characters -- accepted by the
constructor without any warning -- break the documented "whole key <= 63" rule and even the 63-character limit
of the name part: `max_length - len(prefix) - len(suffix)` becomes zero/negative and is used as a slice bound.
Run: /venv/bin/python /verif/findings/F-C16-3.py   (exit 1 = defect reproduced)"""
import re
import sys
import warnings
from kopf._cogs.configs import progress

NAME = re.compile(r'[A-Za-z0-9]([A-Za-z0-9_.-]*[A-Za-z0-9])?\Z')
bad = []
for plen, hid in [(55, 'create_fn'), (60, 'x' * 100), (100, 'create_fn'), (100, 'x' * 200)]:
    prefix = ('a' * 20 + '.') * 10
    prefix = prefix[:plen - 4] + '.com'
    with warnings.catch_warnings():
        warnings.simplefilter('error')       # the constructor warns only above 189 characters
        storage = progress.AnnotationsProgressStorage(prefix=prefix, v1=True)
    key = storage.make_v1_key(hid)
    name = key[len(prefix) + 1:]
    ok = len(name) <= 63 and bool(NAME.match(name))
    print(f'prefix len {len(prefix):3}, id len {len(hid):3} -> v1 name {name[:70]!r} (len {len(name)}) valid={ok}; '
          f'in make_keys: {key in storage.make_keys(hid)}')
    if not ok:
        bad.append(key)
if bad:
    print('REPRODUCED:', len(bad), 'v1 keys have an invalid name part (store() writes them next to the v2 key, so the PATCH is rejected)')
    sys.exit(1)
print('not reproduced')
