"""
F-C09-2 -- native reproduction (run: /venv/bin/python /verif/findings/F-C09-2.py [N]).

daemons.daemon_killer walks the *live* views `memory.running_daemons.values()` (and, through the generator
`memories.iter_all_daemon_memories()`, `memories._items.values()`) with `await scheduler.spawn(...)` inside the loop
body.  While the killer is suspended there, the stoppers it has already scheduled run, well-behaved daemons exit at
once, and daemons._runner deletes their entries from that very dict.  The next step of the view raises
`RuntimeError: dictionary changed size during iteration`: the killer task dies in its finally block, the remaining
daemons of the object never get their stop flag, and the scheduler is neither awaited nor closed.

Everything below is the real kopf code: real spawn_daemons/_runner/_daemon, N real async daemons on ONE object which
exit as soon as `stopped` is set, the real daemon_killer, cancelled once as on operator exit.  N >= 4 fails (default N=4).
"""
import asyncio
import logging
import sys

from kopf._cogs.aiokits import aiotoggles
from kopf._cogs.configs import configuration
from kopf._cogs.structs import bodies, ephemera, patches, references
from kopf._core.engines import daemons
from kopf._core.intents import causes, handlers
from kopf._core.reactor import inventory

N = int(sys.argv[1]) if len(sys.argv) > 1 else 4
RESOURCE = references.Resource('example.com', 'v1', 'kopfexamples', namespaced=True)


async def obedient_daemon(stopped, **_):
    await stopped.wait()            # exits as soon as the stop flag is raised -- the documented good behaviour


def mk_handler(i):
    return handlers.DaemonHandler(
        fn=obedient_daemon, id=f'daemon{i}', param=None, errors=None, timeout=None, retries=None, backoff=None,
        selector=references.Selector('kopfexamples'), labels=None, annotations=None, when=None, field=None, value=None,
        requires_finalizer=True, initial_delay=None,
        cancellation_backoff=None, cancellation_timeout=None, cancellation_polling=None)


async def main():
    settings = configuration.OperatorSettings()
    memories = inventory.ResourceMemories()
    raw = {'apiVersion': 'example.com/v1', 'kind': 'KopfExample',
           'metadata': {'name': 'obj', 'namespace': 'ns', 'uid': 'uid1'}, 'spec': {}, 'status': {}}
    body = bodies.Body(raw)
    memory = await memories.recall(raw)
    dm = memory.daemons_memory
    dm.live_fresh_body = body
    cause = causes.SpawningCause(resource=RESOURCE, indices={},
                                 logger=logging.getLogger('obj'), memo=memory.memo, body=body,
                                 patch=patches.Patch(), reset=False)
    await daemons.spawn_daemons(settings=settings, handlers=[mk_handler(i) for i in range(N)],
                                daemons=dm.running_daemons, cause=cause, memory=dm)
    await asyncio.sleep(0.05)       # all daemons are running now
    assert len(dm.running_daemons) == N

    paused = aiotoggles.ToggleSet(any)
    killer = asyncio.create_task(daemons.daemon_killer(settings=settings, memories=memories, operator_paused=paused))
    await asyncio.sleep(0.05)
    killer.cancel()                 # the operator exits: run_tasks() cancels the root tasks
    try:
        await killer
    except asyncio.CancelledError:
        verdict = 'ok: the killer ended by its cancellation'
    except RuntimeError as e:
        verdict = f'VIOLATION: daemon_killer died with RuntimeError({e})'
    await asyncio.sleep(0.05)
    left = {hid: d.stopper.reason for hid, d in dm.running_daemons.items()}
    print(f'N={N}: {verdict}; daemons still running and never asked to stop: '
          f'{[hid for hid, r in left.items() if r is None]}')
    for d in list(dm.running_daemons.values()):
        d.task.cancel()
    return 1 if verdict.startswith('VIOLATION') else 0


if __name__ == '__main__':
    sys.exit(asyncio.run(main()))
