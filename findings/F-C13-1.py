"""F-C13-1: with settings.peering.lifetime = 1 the keep-alive interval equals the record's lifetime, so the own
record expires at the moment it is renewed (not before).  Run: /venv/bin/python /verif/findings/F-C13-1.py"""
import asyncio, sys
from unittest import mock
import kopf
from kopf._core.engines import peering

async def main():
    settings = kopf.OperatorSettings(); settings.peering.lifetime = 1
    slept, touched = [], []
    async def touch(**kw): touched.append(kw.get('lifetime'))
    async def sleep(d):
        slept.append(d)
        if len(slept) == 3: raise asyncio.CancelledError()
    with mock.patch.object(peering, 'touch', touch), mock.patch.object(peering.asyncio, 'sleep', sleep):
        try:
            await peering.keepalive(namespace=None, resource=None, identity='me', settings=settings)
        except asyncio.CancelledError:
            pass
    print('lifetime =', settings.peering.lifetime, 'sleeps =', slept, 'touch lifetimes =', touched)
    bad = [d for d in slept if not d < settings.peering.lifetime]
    print('VIOLATION: keep-alive interval is not shorter than the lifetime' if bad else 'ok')
    sys.exit(1 if bad else 0)
asyncio.run(main())
