"""F-C19-6 (contract N6s.stopper.cancels_the_pending_request): api.stream()'s "cancel the pending request when the pause begins"
callback calls asyncio.current_task() INSIDE the done-callback of the stopper future -- where no task is current (callbacks are
run by the event loop) -- so it gets None, the `assert task is not None` fails inside the callback and the request is NOT
cancelled: a pause arriving while a watch request still waits for the response headers is not honoured until the headers come.
Run: cd /repo && /venv/bin/python /verif/findings/F-C19-6.py      (exit 1 = the pending request is not cancelled)"""
import asyncio, logging, sys
from kopf._cogs.clients import api
from kopf._cogs.configs import configuration

logging.disable(logging.CRITICAL)


async def main():
    loop = asyncio.get_running_loop()
    errors = []
    loop.set_exception_handler(lambda l, ctx: errors.append(ctx.get('exception')))
    stopper = loop.create_future()
    started = asyncio.Event()

    async def slow_request(**kwargs):          # the server "thinks too slowly before sending the headers"
        started.set()
        await asyncio.sleep(2)
        raise RuntimeError('the headers arrived although the stream was told to stop 1.9 s earlier')
    orig, api.request = api.request, slow_request
    try:
        async def consume():
            async for _ in api.stream(url='/x', settings=configuration.OperatorSettings(), stopper=stopper, logger=logging.getLogger()):
                pass
        task = asyncio.create_task(consume())
        await started.wait()
        stopper.set_result(None)               # the operator is paused now
        await asyncio.sleep(0.2)
        still_pending = not task.done()
        print(f'0.2 s after the pause began: the watch request is still pending: {still_pending}; errors in callbacks: {errors!r}')
        task.cancel()
        try:
            await task
        except BaseException:
            pass
        return 1 if still_pending else 0
    finally:
        api.request = orig

sys.exit(asyncio.run(main()))
