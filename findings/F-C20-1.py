"""F-C20-1: a resource watcher that dies of an unrecoverable error does NOT stop the operator.
orchestration.spawn_missing_watchers() starts every watcher as a guarded task that nobody awaits or monitors: when
queueing.watcher raises (e.g. RuntimeError("Event processing has failed with an unrecoverable error ... The operator will stop
to prevent damage.") after a failed worker, or a WatchingError of the stream), aiotasks.guard only logs "... has failed", the
dead task stays in ensemble.watcher_tasks (so it is not respawned either) and the orchestrator -- the root task -- goes on
waiting: the operator lingers half-alive without that watch.  C20: "When any essential task fails -- including a watch stream
or an object worker failing unrecoverably -- ... the whole operator shuts down rather than lingering half-alive".
Run: cd /repo && /venv/bin/python /verif/findings/F-C20-1.py        (exit 1 = the operator keeps running)"""
import asyncio, logging, sys
from kopf._cogs.configs import configuration
from kopf._cogs.structs import references
from kopf._core.reactor import orchestration, queueing

logging.disable(logging.CRITICAL)


async def main():
    settings = configuration.OperatorSettings()
    insights = references.Insights()
    res = references.Resource(group='example.com', version='v1', plural='things', kind='Thing', singular='thing', shortcuts=frozenset(),
                              categories=frozenset(), subresources=frozenset(), namespaced=True, preferred=True,
                              verbs=frozenset({'list', 'watch', 'patch'}))
    died = asyncio.Event()

    async def dying_watcher(**kwargs):
        await asyncio.sleep(0.05)
        died.set()
        raise RuntimeError("Event processing has failed with an unrecoverable error. The operator will stop to prevent damage.")
    queueing_watcher, queueing.watcher = queueing.watcher, dying_watcher
    try:
        async def processor(**_): return None
        root = asyncio.create_task(orchestration.orchestrator(settings=settings, insights=insights, identity='me', operator_paused=None.__class__ and __import__('kopf')._cogs.aiokits.aiotoggles.ToggleSet(any), processor=processor))
        await asyncio.sleep(0)
        async with insights.revised:
            insights.watched_resources.add(res)
            insights.namespaces.add('ns1')
            insights.revised.notify_all()
        await asyncio.wait_for(died.wait(), timeout=5)
        await asyncio.sleep(0.5)
        alive = not root.done()
        print(f'the watcher died with RuntimeError; the orchestrator (root task) is still running: {alive}')
        root.cancel()
        try:
            await root
        except BaseException:
            pass
        return 1 if alive else 0
    finally:
        queueing.watcher = queueing_watcher

sys.exit(asyncio.run(main()))
