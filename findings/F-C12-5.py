"""
F-C12-5 (property C12): events.post_event contains only a part of the infrastructure failures of its POST:
errors.APIError, aiohttp.ClientResponseError, aiohttp.ServerDisconnectedError and aiohttp.ClientOSError are
logged and ignored ("Events are helpful but auxiliary, they should not fail the handling cycle"), but the other
network failures that api.request escalates as themselves once the backoffs are exhausted (contract N2:
asyncio.TimeoutError -- incl. aiohttp.ServerTimeoutError / SocketTimeoutError --, and the aiohttp.ClientConnectionError
subclasses that are neither ClientOSError nor ServerDisconnectedError, e.g. ClientConnectionResetError,
ServerConnectionError) propagate out of post_event into posting.poster() -- a ROOT task of the operator
(running.spawn_tasks: "poster of events"): the task dies and run_tasks() stops the whole operator.
A time-out while posting one auxiliary k8s-event is fatal for the operator, which C12 excludes ("never fatal").
Run:  /venv/bin/python /verif/findings/F-C12-5.py      (exit 1 = defect reproduced)
"""
import asyncio
import logging
import sys

import aiohttp

from kopf._cogs.clients import api, errors, events
from kopf._cogs.configs import configuration
from kopf._cogs.structs import references
from kopf._core.engines import posting

logging.disable(logging.CRITICAL)
EVENTS = references.Resource(group='', version='v1', plural='events', namespaced=True)
REF = dict(apiVersion='kopf.dev/v1', kind='KopfExample', name='obj1', uid='uid1', namespace='ns1')


class Backbone:
    async def wait_for(self, selector):
        return EVENTS


async def one(failure):
    """run the real poster() over a queue with one event whose POST fails with `failure` after api.request's retries"""
    posted = []

    async def post(url, **kw):          # api.post by contract N5/N2: the escalated failure of the last attempt
        posted.append(url)
        raise failure
    real = api.post
    api.post = post
    try:
        queue = asyncio.Queue()
        queue.put_nowait(posting.K8sEvent(ref=REF, type='Normal', reason='Testing', message='hello'))
        task = asyncio.create_task(posting.poster(event_queue=queue, backbone=Backbone(),
                                                  settings=configuration.OperatorSettings()))
        await asyncio.wait([task], timeout=0.5)
        if task.done():
            return posted, task.exception()
        task.cancel()
        await asyncio.wait([task])
        return posted, None
    finally:
        api.post = real


async def main():
    bad = 0
    failures = [errors.APIServerError(None, status=503, headers={}),            # contained (as intended)
                aiohttp.ClientOSError('connection refused'),                     # contained (as intended)
                asyncio.TimeoutError(),                                          # the request timed out
                aiohttp.ServerTimeoutError('read timeout'),
                aiohttp.ClientConnectionError('connection closed')]
    if hasattr(aiohttp, 'ClientConnectionResetError'):
        failures.append(aiohttp.ClientConnectionResetError('reset by peer'))
    for failure in failures:
        posted, died_with = await one(failure)
        if died_with is None:
            print(f'ok: {failure!r}: logged and ignored, the poster goes on')
        else:
            bad += 1
            print(f'VIOLATION: {failure!r}: the root task "poster of events" died with {died_with!r} -> the operator stops')
    return 1 if bad else 0


sys.exit(asyncio.run(main()))
