"""
F-C18-3 (property C18, obligations A5.merge_fidelity / A5.fns_fidelity): the JSON patch built by
Patch.as_json_patch comes from the third-party jsonpatch.JsonPatch.from_diff (jsonpatch 1.33), whose "move"
optimisation is defective:
  (a) when a list loses several elements and one of the removed values is added elsewhere, the ops can come out as
      [remove /l/0, move from /l/0 ...] -- the move then takes the WRONG element.  Whether it happens depends on the
      iteration order of a set of keys, i.e. on PYTHONHASHSEED (seeds 1, 2, 3 below; not 0);
  (b) with a mapping key that looks like a number ("0") next to list changes, from_diff raises
      TypeError: '>' not supported between instances of 'str' and 'int'   (every seed).
Either way the JSON patch of the admission response does not yield the object with the requested changes.

Run:  cd /repo && /venv/bin/python /verif/findings/F-C18-3.py      exit 1 = the defect is present, 0 = absent.
"""
import copy
import os
import subprocess
import sys


def probe() -> int:
    import jsonpatch
    from kopf._cogs.structs.patches import Patch
    bad = 0
    # (a) merge-patch: empty the list, put its first element under m.k      (b) digit-like key next to list changes
    for body, patch, want in [
        ({'l': ['p', 'q'], 'm': {}}, {'l': [], 'm': {'k': 'p'}}, {'l': [], 'm': {'k': 'p'}}),
        ({'c': [{'a': None}], '0': {}, 'b': [0]}, {'c': None, '0': None, 'b': [[], {}], 'a': [1]}, {'b': [[], {}], 'a': [1]}),
    ]:
        try:
            ops = Patch(patch).as_json_patch(copy.deepcopy(body))
            got = jsonpatch.JsonPatch(ops).apply(copy.deepcopy(body))
            ok = got == want
            print(f"seed={os.environ.get('PYTHONHASHSEED')} {'ok    ' if ok else 'DEFECT'} body={body} merge-patch={patch} ops={ops} -> {got}")
        except TypeError as e:
            ok = False
            print(f"seed={os.environ.get('PYTHONHASHSEED')} DEFECT body={body} merge-patch={patch} -> TypeError: {e}")
        bad += not ok
    return bad


if __name__ == '__main__':
    if len(sys.argv) > 1:
        sys.exit(1 if probe() else 0)
    rcs = [subprocess.run([sys.executable, __file__, 'probe'], env=dict(os.environ, PYTHONHASHSEED=str(seed))).returncode
           for seed in range(6)]
    sys.exit(1 if any(rcs) else 0)
