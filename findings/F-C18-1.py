"""
F-C18-1 (property C18, obligation R5.operation): WebhooksRegistry.iter_handlers never compares the review's
operation with the handler's declared `operations`: an UPDATE review runs (and is denied by) a validating handler
declared with operations=['CREATE'], when the webhook server gives no webhook-id hint (custom servers/tunnels,
self-made configurations -- docs/admission.rst says the handler is "called only for a specific operation").

Run:  cd /repo && /venv/bin/python /verif/findings/F-C18-1.py      exit 1 = the defect is present, 0 = absent.
"""
import asyncio
import sys

import kopf
from kopf._cogs.configs.configuration import OperatorSettings
from kopf._cogs.structs.references import Insights, Resource
from kopf._core.engines.admission import serve_admission_request
from kopf._core.engines.indexing import OperatorIndexers
from kopf._core.intents.registries import OperatorRegistry
from kopf._core.reactor.inventory import ResourceMemories

RESOURCE = Resource('kopf.dev', 'v1', 'kopfexamples', namespaced=True)
called = []


async def review(operation: str, webhook=None):
    registry = OperatorRegistry()
    insights = Insights()
    insights.webhook_resources.add(RESOURCE)

    @kopf.on.validate(RESOURCE.group, RESOURCE.version, RESOURCE.plural, registry=registry,
                      id='create-only', operations=['CREATE'])
    def create_only(**_):
        called.append(operation)
        raise kopf.AdmissionError("creation is not allowed", code=403)

    obj = {'apiVersion': 'kopf.dev/v1', 'kind': 'KopfExample', 'metadata': {'name': 'n1', 'namespace': 'ns1', 'uid': 'u1'},
           'spec': {'field': 'value'}}
    request = {
        'apiVersion': 'admission.k8s.io/v1', 'kind': 'AdmissionReview',
        'request': {
            'uid': 'uid1',
            'kind': {'group': RESOURCE.group, 'version': RESOURCE.version, 'kind': 'KopfExample'},
            'resource': {'group': RESOURCE.group, 'version': RESOURCE.version, 'resource': RESOURCE.plural},
            'subResource': None, 'userInfo': {'username': 'user1', 'uid': 'useruid1', 'groups': ['group1']},
            'name': 'n1', 'namespace': 'ns1', 'operation': operation,
            'object': obj, 'oldObject': None if operation == 'CREATE' else obj, 'dryRun': False,
        },
    }
    return await serve_admission_request(
        request, webhook=webhook,
        settings=OperatorSettings(), registry=registry, insights=insights,
        memories=ResourceMemories(), memobase=object(), indices=OperatorIndexers().indices)


async def main() -> int:
    created = await review('CREATE')
    updated = await review('UPDATE')
    print('CREATE review ->', created['response'])
    print('UPDATE review ->', updated['response'])
    assert created['response']['allowed'] is False          # the handler is for CREATE: it runs and denies
    if 'UPDATE' in called or updated['response']['allowed'] is not True:
        print("DEFECT: the handler declared with operations=['CREATE'] ran for an UPDATE review and denied it")
        return 1
    print("ok: the CREATE-only handler did not run for the UPDATE review")
    return 0


if __name__ == '__main__':
    sys.exit(asyncio.run(main()))
