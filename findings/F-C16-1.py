"""F-C16-1: annotation names generated for handler ids that start (any length) or end (ids that fit) with a
non-alphanumeric character of the id alphabet [A-Za-z0-9_./<>-] are not valid Kubernetes qualified names
(the name part must begin and end with [A-Za-z0-9]); the API server rejects such a PATCH with 422.
Real-world ids of this kind: `_private_handler` (a function named with a leading underscore), `fn_`, sub-handler
ids ending in `/`.
Run: /venv/bin/python /verif/findings/F-C16-1.py   (exit 1 = defect reproduced)"""
import re
import sys
from kopf._cogs.configs import progress

NAME = re.compile(r'[A-Za-z0-9]([A-Za-z0-9_.-]*[A-Za-z0-9])?\Z')
storage = progress.AnnotationsProgressStorage(prefix='kopf.zalando.org', v1=False)
bad = []
for hid in ['_private_handler', 'fn_', 'outer/', '-', '<lambda>', '_' + 'x' * 100]:
    for key in storage.make_keys(hid):
        name = key.split('/', 1)[1]
        ok = len(name) <= 63 and bool(NAME.match(name))
        print(f'{hid[:30]!r:34} -> {key!r:60} valid={ok}')
        if not ok:
            bad.append(key)
if bad:
    print('REPRODUCED:', len(bad), 'generated annotation names are not valid Kubernetes qualified names')
    sys.exit(1)
print('not reproduced')
