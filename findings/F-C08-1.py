"""F-C08-1 (C08, obligation A4.bound_to_identity): patch_obj's merge-patch requests address the object by
namespace/name only -- no metadata.uid / metadata.resourceVersion precondition -- so a patch computed for an
object that was meanwhile deleted and re-created under the same name lands on the NEW object.
Run: /venv/bin/python /verif/findings/F-C08-1.py   (exit 0 = reproduced)"""
import asyncio, copy, logging, sys
from kopf._cogs.clients import api, errors, patching
from kopf._cogs.structs import bodies, patches, references

# A minimal stateful server: one object per name; honours the Kubernetes preconditions (a merge-patch that
# states metadata.uid or metadata.resourceVersion different from the stored ones is rejected with 409).
store = {'obj1': {'metadata': {'name': 'obj1', 'namespace': 'ns1', 'uid': 'uid-OLD', 'resourceVersion': '10'}, 'spec': {}, 'status': {}}}
requests = []


def merge(dst, src):
    for k, v in src.items():
        if v is None:
            dst.pop(k, None)
        elif isinstance(v, dict):
            merge(dst.setdefault(k, {}), v)
        else:
            dst[k] = v


async def fake_patch(url, *, payload, headers, **_):
    requests.append((url, headers['Content-Type'], copy.deepcopy(payload)))
    obj = store[url.split('/')[7]]   # /apis/<group>/<version>/namespaces/<ns>/<plural>/<name>[/status]
    md = payload.get('metadata', {}) if isinstance(payload, dict) else {}
    for f in ('uid', 'resourceVersion'):
        if f in md and md[f] != obj['metadata'][f]:
            raise errors.APIConflictError(None, status=409, headers={})
    merge(obj, {k: v for k, v in payload.items() if ('/status' in url) == (k == 'status')})
    obj['metadata']['resourceVersion'] = str(int(obj['metadata']['resourceVersion']) + 1)
    return copy.deepcopy(obj)

api.patch = fake_patch
resource = references.Resource('kopf.dev', 'v1', 'kopfexamples', namespaced=True, subresources=frozenset({'status'}))

# 1. the operator sees the OLD object and accumulates a patch for it (handler result, progress, ...)
old_body = bodies.Body(copy.deepcopy(store['obj1']))
patch = patches.Patch(body=old_body)
patch.status['create_fn'] = {'message': 'result computed for uid-OLD'}
patch.metadata.annotations['kopf.zalando.org/last-handled-configuration'] = '{"spec": "of uid-OLD"}'

# 2. meanwhile the object is deleted and re-created under the same name (new uid, new versions)
store['obj1'] = {'metadata': {'name': 'obj1', 'namespace': 'ns1', 'uid': 'uid-NEW', 'resourceVersion': '50'}, 'spec': {'fresh': True}, 'status': {}}

# 3. the patch is delivered
asyncio.run(patching.patch_obj(settings=None, resource=resource, namespace='ns1', name='obj1', patch=patch,
                               logger=logging.getLogger('repro')))
for r in requests:
    print('request:', r)
new = store['obj1']
print('object now stored under the name:', new)
carried_identity = any('uid' in (p.get('metadata') or {}) or 'resourceVersion' in (p.get('metadata') or {})
                       for _, ct, p in requests if ct == 'application/merge-patch+json')
landed = new['metadata']['uid'] == 'uid-NEW' and 'create_fn' in new['status'] and \
    'kopf.zalando.org/last-handled-configuration' in new['metadata'].get('annotations', {})
print('merge-patch requests carried an identity precondition:', carried_identity)
print('patch computed for uid-OLD landed on uid-NEW:', landed)
sys.exit(0 if landed and not carried_identity else 1)
