"""
F-C18-6 (property C18, obligation M4.name.valid_dns1123_subdomain): admission._normalize_name() promises (docstring) a
name that Kubernetes accepts: "a lowercase RFC 1123 subdomain must consist of lower case alphanumeric characters, '-' or
'.', and must start and end with an alphanumeric character".  It does not deliver that for quite ordinary handler ids:
  (a) BAD_WEBHOOK_NAME = [^\\w\\d\\.-] treats every word character as fine, so upper-case letters (validateX,
      MyClass.method) and non-ASCII letters pass through unescaped;
  (b) "_" -> "-" and "/" -> "." happen before/without looking at the label edges: a private function `_check` becomes
      "-check.auto.kopf.dev", `check_` becomes "check-.auto.kopf.dev", "a//b" gets an empty label.
Kubernetes validates webhooks[].name of a [Validating|Mutating]WebhookConfiguration as a DNS-1123 subdomain and rejects
the WHOLE patch (422 Unprocessable Entity): configuration_manager escalates the error and the operator exits -- or, with
the error swallowed by a custom setup, none of the operator's webhooks is registered.

Run:  cd /repo && /venv/bin/python /verif/findings/F-C18-6.py      exit 1 = the defect is present, 0 = absent.
"""
import re
import sys

import kopf
from kopf._cogs.structs.references import Resource
from kopf._core.engines.admission import build_webhooks
from kopf._core.intents.registries import OperatorRegistry

# k8s.io/apimachinery/pkg/util/validation.IsDNS1123Subdomain
DNS1123_SUBDOMAIN = re.compile(r'[a-z0-9]([-a-z0-9]*[a-z0-9])?(\.[a-z0-9]([-a-z0-9]*[a-z0-9])?)*')
RESOURCE = Resource('kopf.dev', 'v1', 'kopfexamples', namespaced=True)
registry = OperatorRegistry()


@kopf.on.validate(RESOURCE.group, RESOURCE.version, RESOURCE.plural, registry=registry)
def _check_numbers(**_):        # a "private" module-level function
    pass


@kopf.on.validate(RESOURCE.group, RESOURCE.version, RESOURCE.plural, registry=registry)
def validateSpec(**_):          # camelCase
    pass


@kopf.on.validate(RESOURCE.group, RESOURCE.version, RESOURCE.plural, registry=registry)
def fine_one(**_):
    pass


webhooks = build_webhooks(registry._webhooks.get_all_handlers(), resources=[RESOURCE], name_suffix='auto.kopf.dev',
                          client_config={'url': 'https://localhost:443'})
bad = [w['name'] for w in webhooks if not DNS1123_SUBDOMAIN.fullmatch(w['name'])]
print('webhook names:', [w['name'] for w in webhooks])
if bad:
    print(f'DEFECT: not DNS-1123 subdomains (Kubernetes answers 422 to the whole configuration patch): {bad}')
    sys.exit(1)
sys.exit(0)
