"""F-C16-4: StatusProgressStorage.fetch -- and with it the DEFAULT progress storage, SmartProgressStorage, whose second part is
a (no-write) StatusProgressStorage -- raises AttributeError when `status.kopf.progress` of the object is present but is not a
mapping (a string, a list, a number: e.g. after a manual `kubectl patch --subresource=status`, or another tool using the field).
dicts.resolve() documents this very field as data that "can be corrupted" and must then be treated "as if there is no data at all";
one level higher (status.kopf = "garbage") that is what happens, but the last step is `container.get(key)` on whatever was found.
Effect: State.from_storage() raises for every handler of every changing event of that object; the object is never handled again
until the field is repaired by hand.
Run: /venv/bin/python /verif/findings/F-C16-4.py   (exit 1 = defect reproduced)"""
import sys
from kopf._cogs.configs import progress
from kopf._cogs.structs import bodies

failed = False
for storage in (progress.SmartProgressStorage(), progress.StatusProgressStorage()):
    ok = storage.fetch(key='create_fn', body=bodies.Body({'status': {'kopf': 'garbage'}}))
    print(type(storage).__name__, 'status.kopf="garbage"          ->', ok)
    for corrupted in ('garbage', ['x'], 42):
        body = bodies.Body({'metadata': {'name': 'obj'}, 'status': {'kopf': {'progress': corrupted}}})
        try:
            print(type(storage).__name__, f'status.kopf.progress={corrupted!r} ->', storage.fetch(key='create_fn', body=body))
        except AttributeError as e:
            print(type(storage).__name__, f'status.kopf.progress={corrupted!r} -> REPRODUCED: AttributeError: {e}')
            failed = True
sys.exit(1 if failed else 0)
