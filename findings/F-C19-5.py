"""F-C19-5: the ambiguity rule of docs/resources.rst ("if 2 or more resources from different API groups match the same
resource specification, neither of them will be served") does not survive a re-scan of ONE API group (which every CRD
event triggers): _disable_ambiguous_selectors removes both candidates from insights.watched_resources, so the later
group-limited revision only sees the candidate of the re-scanned group -- and serves it, although the selector is as
ambiguous as before.  Conversely, when the ambiguity really ends (one of the two CRDs is deleted), the survivor of the
other group is not served until the operator restarts.
Run: /venv/bin/python /verif/findings/F-C19-5.py"""
import sys
import kopf
from kopf._cogs.structs import references
from kopf._core.intents import registries
from kopf._core.reactor import observation

VERBS = frozenset({'get', 'list', 'watch', 'patch'})
def mk(group, plural):
    return references.Resource(group=group, version='v1', plural=plural, kind='Thing', singular='thing',
                               namespaced=True, preferred=True, verbs=VERBS)

registry = registries.OperatorRegistry()
@kopf.on.event('things', registry=registry)          # ambiguous: things.example.com and things.other.io
def fn(**_): pass

bad = False
insights = references.Insights()
cluster = [mk('example.com', 'things'), mk('other.io', 'things')]
observation.revise_resources(group=None, insights=insights, registry=registry, resources=cluster)
print('initial scan of', cluster, '-> watched:', insights.watched_resources, '(correct: ambiguous, none served)')

# any CRD event of group example.com (e.g. an edit of the CRD, or another CRD of that group): that group is re-scanned
observation.revise_resources(group='example.com', insights=insights, registry=registry, resources=[mk('example.com', 'things')])
print('re-scan of example.com (nothing changed) -> watched:', insights.watched_resources)
if insights.watched_resources:
    bad = True
    print('VIOLATION: "things" still matches 2 resources of different groups, and one of them is served now')

insights = references.Insights()
observation.revise_resources(group=None, insights=insights, registry=registry, resources=cluster)
observation.revise_resources(group='example.com', insights=insights, registry=registry, resources=[])
print('CRD things.example.com deleted, re-scan of example.com -> watched:', insights.watched_resources)
if not insights.watched_resources:
    bad = True
    print('VIOLATION: things.other.io is the only match now, and it is not served')
sys.exit(1 if bad else 0)
