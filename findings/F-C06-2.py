"""
Triage repro: a carried-over ``allow_deletion`` (after HTTP 422 on the JSON-patch) removes
kopf's finalizer in the next cycle although a mandatory on-delete handler matches the object again.

Run:  PYTHONPATH=/repo /venv/bin/python /verif/findings/F-C06-2.py [unrelated]
      (default: the racing change IS the label flip-back; 'unrelated': an unrelated racing change
      causes the 422, and the label is flipped back afterwards, before the next event is processed)
Exit: 1 if the finalizer gets removed while the delete handler matches; 0 otherwise.

Real: process_resource_event -> process_resource_causes -> application.apply -> patching.patch_obj,
real registry/handlers/memories/settings/storages/cause detection.
Fake: only ``kopf._cogs.clients.api.patch`` (an in-memory single-object API server).
"""
import asyncio
import copy
import logging
import sys

import jsonpatch

import kopf
from kopf._cogs.clients import api, errors
from kopf._cogs.configs.configuration import OperatorSettings
from kopf._cogs.structs.ephemera import Memo
from kopf._cogs.structs.references import Resource
from kopf._core.engines.indexing import OperatorIndexers
from kopf._core.reactor.inventory import ResourceMemories
from kopf._core.reactor.processing import process_resource_event

RESOURCE = Resource('kopf.dev', 'v1', 'kopfexamples', namespaced=True)
NS, NAME = 'ns1', 'obj1'
URL = RESOURCE.get_url(namespace=NS, name=NAME)

TIMELINE: list[str] = []


def say(msg: str) -> None:
    TIMELINE.append(msg)
    print(msg, flush=True)


class FakeServer:
    """A single-object K8s API server: merge-patch, JSON-patch (422 on failed test), rv bump."""

    def __init__(self, obj: dict) -> None:
        self.obj: dict | None = copy.deepcopy(obj)
        self.rv = 1
        self.obj['metadata']['resourceVersion'] = str(self.rv)
        self.calls = 0
        self.before_next_patch = None  # a hook to simulate a racing external change

    # --- external actors (kubectl & co) ---
    def _commit(self, new: dict) -> None:
        if new != self.obj:
            self.rv += 1
            new['metadata']['resourceVersion'] = str(self.rv)
        self.obj = new
        md = self.obj['metadata']
        if not md.get('finalizers'):
            md.pop('finalizers', None)
            if md.get('deletionTimestamp'):
                say(f"        [server] deletionTimestamp is set & no finalizers left: the object is GONE")
                self.obj = None

    def snapshot(self) -> dict:
        assert self.obj is not None
        return copy.deepcopy(self.obj)

    def ext_set_label(self, key: str, value: str | None) -> None:
        new = self.snapshot()
        labels = new['metadata'].setdefault('labels', {})
        if value is None:
            labels.pop(key, None)
        else:
            labels[key] = value
        self._commit(new)

    def ext_delete(self) -> None:
        new = self.snapshot()
        new['metadata']['deletionTimestamp'] = '2026-01-01T00:00:00Z'
        self._commit(new)

    # --- the replacement of kopf._cogs.clients.api.patch ---
    async def patch(self, url, *, settings, payload=None, headers=None, timeout=None, logger=None):
        self.calls += 1
        if self.before_next_patch is not None:
            hook, self.before_next_patch = self.before_next_patch, None
            hook()
        ctype = (headers or {}).get('Content-Type')
        assert url == URL, url
        if self.obj is None:
            raise errors.APINotFoundError({'message': 'not found'}, status=404, headers={})
        new = self.snapshot()
        if ctype == 'application/merge-patch+json':
            say(f"        [server] MERGE-PATCH {payload!r}")
            new = jsonpatch.JsonPatch([]).apply(new)  # copy
            new = _merge(new, payload)
        elif ctype == 'application/json-patch+json':
            try:
                new = jsonpatch.JsonPatch(payload).apply(new)
            except jsonpatch.JsonPatchTestFailed:
                say(f"        [server] JSON-PATCH {payload!r} -> 422 (server rv={self.rv})")
                raise errors.APIUnprocessableEntityError(
                    {'message': 'the server rejected our request due to an error in our request'},
                    status=422, headers={})
            say(f"        [server] JSON-PATCH {payload!r} -> 200")
        else:
            raise AssertionError(ctype)
        self._commit(new)
        return copy.deepcopy(self.obj if self.obj is not None else new)


def _merge(target, patch):  # RFC 7386
    if not isinstance(patch, dict):
        return patch
    if not isinstance(target, dict):
        target = {}
    for k, v in patch.items():
        if v is None:
            target.pop(k, None)
        else:
            target[k] = _merge(target.get(k), v)
    return target


async def main() -> int:
    logging.basicConfig(level=logging.DEBUG, format='        [kopf] %(message)s', stream=sys.stdout)
    logging.getLogger('asyncio').setLevel(logging.WARNING)

    settings = OperatorSettings()
    settings.posting.enabled = False
    finalizer = settings.persistence.finalizer
    registry = kopf.OperatorRegistry()
    memories = ResourceMemories()
    indexers = OperatorIndexers()
    delete_calls: list[str] = []

    @kopf.on.delete('kopf.dev', 'v1', 'kopfexamples', labels={'managed': 'yes'}, registry=registry)
    async def delete_fn(body, **_):
        delete_calls.append(body['metadata'].get('resourceVersion'))

    server = FakeServer({
        'apiVersion': 'kopf.dev/v1', 'kind': 'KopfExample',
        'metadata': {'namespace': NS, 'name': NAME, 'uid': 'uid1',
                     'labels': {'managed': 'yes'}, 'finalizers': [finalizer]},
        'spec': {'field': 'value'},
    })
    api.patch = server.patch  # the ONLY replaced thing; patching.py calls `api.patch(...)`

    def handler_matches(obj: dict | None) -> bool:
        return obj is not None and obj['metadata'].get('labels', {}).get('managed') == 'yes'

    def has_finalizer(obj: dict | None) -> bool:
        return obj is not None and finalizer in obj['metadata'].get('finalizers', [])

    def state(obj: dict | None) -> str:
        if obj is None:
            return "GONE"
        md = obj['metadata']
        return (f"rv={md['resourceVersion']} labels={md.get('labels', {})} "
                f"finalizers={md.get('finalizers', [])} deleting={'deletionTimestamp' in md}")

    async def cycle(title: str, event_type: str | None, event_body: dict) -> int:
        say(f"  {title}: event {event_type} with {state(event_body)}")
        before = server.calls
        await process_resource_event(
            lifecycle=kopf.lifecycles.all_at_once,
            registry=registry, settings=settings, resource=RESOURCE,
            indexers=indexers, memories=memories, memobase=Memo(),
            raw_event={'type': event_type, 'object': event_body},
            event_queue=asyncio.Queue(),
        )
        memory = await memories.recall(event_body)
        say(f"        => server: {state(server.obj)}; memory.remaining_patch={memory.remaining_patch!r}")
        return server.calls - before

    violated = False

    say("=== Phase 0: settle the object that has the label and the finalizer")
    for i in range(5):
        if not await cycle(f"settle#{i}", 'MODIFIED' if i else None, server.snapshot()):
            break
    assert has_finalizer(server.obj) and handler_matches(server.obj)

    say("=== Phase 1: the label is flipped away (finalizer no longer required); "
        "while that event is processed, the label is flipped back server-side (-> 422)")
    server.ext_set_label('managed', 'no')
    event1 = server.snapshot()
    say(f"  [extern] label managed=no: {state(server.obj)}")

    unrelated_race = len(sys.argv) > 1 and sys.argv[1] == 'unrelated'  # variant of the history

    def race() -> None:
        if unrelated_race:
            server.ext_set_label('unrelated', 'x')
            say(f"  [extern] (racing, before kopf's patch lands) label unrelated=x: {state(server.obj)}")
        else:
            server.ext_set_label('managed', 'yes')
            say(f"  [extern] (racing, before kopf's patch lands) label managed=yes: {state(server.obj)}")
    server.before_next_patch = race
    await cycle("cycle#1", 'MODIFIED', event1)
    memory = await memories.recall(event1)
    carried = bool(memory.remaining_patch and memory.remaining_patch.fns)
    say(f"  carried over to the next cycle: {carried}; finalizer still present: {has_finalizer(server.obj)}")

    say("=== Phase 2: the next event: the label is back, the delete handler matches again")
    if unrelated_race:
        server.ext_set_label('managed', 'yes')
        say(f"  [extern] label managed=yes (before the next event is processed): {state(server.obj)}")
    event2 = server.snapshot()
    assert handler_matches(event2) and has_finalizer(event2)
    await cycle("cycle#2", 'MODIFIED', event2)
    if handler_matches(server.obj) and not has_finalizer(server.obj):
        violated = True
        say("  !!! VIOLATION: the finalizer is removed while @kopf.on.delete(labels={'managed':'yes'}) matches")
    else:
        say("  ok: the finalizer is still present")

    # Fork the world here: (A) nothing else happens; (B) the object is deleted right now.
    fork_server = copy.deepcopy({'obj': server.obj, 'rv': server.rv})

    say("=== Phase 3A: no deletion; the next event is the echo of kopf's own JSON-patch")
    event3 = server.snapshot()
    await cycle("cycle#3A", 'MODIFIED', event3)
    healed = has_finalizer(server.obj)
    say(f"  self-healed in the following cycle: {healed}")

    say("=== Phase 3B: (alternative world) the object is deleted right after cycle#2, before cycle#3")
    server.obj, server.rv = copy.deepcopy(fork_server['obj']), fork_server['rv']
    memories_b = ResourceMemories()  # a fresh memory is fine: nothing was carried out of cycle#2
    memories = memories_b
    say(f"  [extern] kubectl delete on: {state(server.obj)}")
    last = server.snapshot()
    server.ext_delete()
    say(f"  server: {state(server.obj)}")
    await cycle("cycle#3B(echo of the patch)", 'MODIFIED', last)
    last['metadata']['deletionTimestamp'] = '2026-01-01T00:00:00Z'
    await cycle("cycle#4B", 'DELETED', last)
    say(f"  delete handler calls: {delete_calls!r}")
    if not delete_calls:
        say("  !!! the object with managed=yes is gone and the mandatory on-delete handler was NEVER called")

    say("")
    say(f"VERDICT: violated={violated} self_healed_next_cycle={healed} "
        f"delete_handler_called_if_deleted_inbetween={bool(delete_calls)}")
    return 1 if violated else 0


if __name__ == '__main__':
    sys.exit(asyncio.run(main()))
