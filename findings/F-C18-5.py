"""
F-C18-5 (property C18, obligation M3.webhooks.rule_subresource_star_covers_main): docs/admission.rst ("Handler options")
promises for admission handlers that `subresource="*"` "means that both the main body and any subresource are checked".
admission.build_webhooks() -- the content of the managed [Validating|Mutating]WebhookConfiguration -- renders it as
rules[].resources == ["<plural>/*"].  In Kubernetes (admissionregistration.k8s.io/v1, RuleWithOperations.resources):
"'pods/*' means all subresources of pods", while the main resource needs "pods" (or "*/*" for everything).  With a
managed configuration the apiserver therefore never sends reviews of the MAIN body to such a handler, although the
in-process selection (registries._matches_subresource) would run it.

Run:  cd /repo && /venv/bin/python /verif/findings/F-C18-5.py      exit 1 = the defect is present, 0 = absent.
"""
import sys

import kopf
from kopf._cogs.structs.references import Resource
from kopf._core.engines.admission import build_webhooks
from kopf._core.intents.registries import OperatorRegistry

RESOURCE = Resource('kopf.dev', 'v1', 'kopfexamples', namespaced=True)
registry = OperatorRegistry()


@kopf.on.validate(RESOURCE.group, RESOURCE.version, RESOURCE.plural, registry=registry, id='anything', subresource='*')
def anything(**_):
    pass


def k8s_rule_matches(pattern: str, resource: str, subresource: str | None) -> bool:
    """RuleWithOperations.resources matching as documented by Kubernetes (k8s.io/apiserver .../rules.Matcher.resource)."""
    res, _, sub = pattern.partition('/')
    if subresource is None:
        return '/' not in pattern and res in ('*', resource)
    return '/' in pattern and res in ('*', resource) and sub in ('*', subresource)


webhooks = build_webhooks(registry._webhooks.get_all_handlers(), resources=[RESOURCE], name_suffix='auto.kopf.dev',
                          client_config={'url': 'https://localhost:443'})
patterns = webhooks[0]['rules'][0]['resources']
main = any(k8s_rule_matches(p, 'kopfexamples', None) for p in patterns)
status = any(k8s_rule_matches(p, 'kopfexamples', 'status') for p in patterns)
print(f'rules[0].resources = {patterns!r}: main body reviewed = {main}, status subresource reviewed = {status}')
if status and not main:
    print('DEFECT: subresource="*" is documented to check the main body too, but the managed webhook rule excludes it')
    sys.exit(1)
sys.exit(0)
