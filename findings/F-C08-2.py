"""F-C08-2 (C08, obligation A3.merge_patches_complete): with a status subresource, a patch that deletes the
status stanza ({'status': None}) is dropped silently: patch_obj pops the status out of the main payload and
then sends no status request because the popped value is None. (Without the subresource it is delivered.)
Run: /venv/bin/python /verif/findings/F-C08-2.py   (exit 0 = reproduced)"""
import asyncio, logging, sys
from kopf._cogs.clients import api, patching
from kopf._cogs.structs import patches, references

calls = []


async def fake_patch(url, *, payload, headers, **_):
    calls.append((url, headers['Content-Type'], payload))
    return {'metadata': {'resourceVersion': '2'}}

api.patch = fake_patch


def run(subresources, content):
    calls.clear()
    res = references.Resource('kopf.dev', 'v1', 'kopfexamples', namespaced=True, subresources=frozenset(subresources))
    out = asyncio.run(patching.patch_obj(settings=None, resource=res, namespace='ns1', name='obj1',
                                         patch=patches.Patch(content), logger=logging.getLogger('repro')))
    return list(calls), out

with_sub, out1 = run({'status'}, {'status': None, 'spec': {'x': 1}})
print('status subresource, patch {status: None, spec: {x: 1}} ->', with_sub)
only, out2 = run({'status'}, {'status': None})
print('status subresource, patch {status: None}               ->', only, out2)
without, _ = run(set(), {'status': None})
print('no subresource,     patch {status: None}               ->', without)
lost = not any('status' in p for _, _, p in with_sub) and only == [] and any('status' in p for _, _, p in without)
print('the status deletion never reaches the server when status is a subresource:', lost)
sys.exit(0 if lost else 1)
