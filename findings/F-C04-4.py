"""F-C04-4: with a handler interested in the status stanza (`@kopf.on.update(..., field='status')`, the example of
docs/handlers.rst) the whole `status` is an extra field of the essence.  The storages hide their own status fields from it
(StatusDiffBaseStorage.build removes status.kopf.last-handled-configuration, StatusProgressStorage.clear removes
status.kopf.progress) -- but nothing removes the touch field status.kopf.dummy that StatusProgressStorage.touch writes.
The framework's own touch (made only to wake itself up after a delay) therefore changes the essence: it is detected as an
UPDATE of the object with a diff at status.kopf.dummy, and the status handlers are selected for it.
Run: /venv/bin/python /verif/findings/F-C04-4.py   (exit 1 = defect reproduced)"""
import sys
from kopf._cogs.configs import diffbase, progress
from kopf._cogs.structs import bodies, diffs, patches

progress_storage = progress.StatusProgressStorage()          # also: MultiProgressStorage([Annotations.., StatusProgressStorage()])
diffbase_storage = diffbase.AnnotationsDiffBaseStorage()
extra_fields = ['status']                                    # registry.get_extra_fields() for a handler with field='status'


def essence(body):
    built = diffbase_storage.build(body=bodies.Body(body), extra_fields=extra_fields)
    return progress_storage.clear(essence=built)


body = {'apiVersion': 'example.com/v1', 'kind': 'KopfExample', 'metadata': {'name': 'obj'}, 'spec': {'x': 1}, 'status': {'observed': 1}}
patch = patches.Patch()
progress_storage.touch(body=bodies.Body(body), patch=patch, value='2020-01-01T00:00:00')
print('the touch patch :', dict(patch))
touched = {**body, 'status': {**body['status'], **{k: dict(v) for k, v in patch['status'].items()}}}
old, new = essence(body), essence(touched)
print('essence before  :', old)
print('essence after   :', new)
diff = diffs.diff(old, new)
print('diff            :', diff)
if diff:
    print("REPRODUCED: the framework's own touch counts as a change of the object")
    sys.exit(1)
print('not reproduced')
