"""
Triage repro: does a restarted operator with a FIXED identity "autoclean" its OWN fresh
peering record when the listing of the peering object still carries its own EXPIRED record?

Real code driven: kopf._core.engines.peering.{process_peering_event,keepalive,touch,clean},
kopf._cogs.clients.patching.patch_obj, and (scenario C) the real
kopf._core.reactor.orchestration.spawn_missing_peerings + queueing.watcher/worker +
watching.infinite_watch/continuous_watch + fetching.list_objs.

Faked: only the HTTP layer -- api.patch / api.get / watching.watch_objs -- by an in-memory
peering object with merge-patch semantics and a history of versions (for the watch-stream).

Run:  PYTHONPATH=/repo /venv/bin/python repro.py
Exit: 1 if in some realistic order the own fresh record is removed while the operator runs.
"""
import asyncio
import copy
import datetime
import functools
import logging
import sys
import time

from kopf._cogs.aiokits import aiotoggles
from kopf._cogs.clients import api, watching
from kopf._cogs.configs import configuration
from kopf._cogs.structs import references
from kopf._core.engines import peering
from kopf._core.reactor import orchestration

RESOURCE = references.Resource('kopf.dev', 'v1', 'clusterkopfpeerings', namespaced=False)
NAMESPACE = None
NAME = 'default'
ME = peering.Identity('operator-pod-0')   # fixed identity, e.g. from POD_ID
T0 = time.monotonic()


def log(msg: str) -> None:
    print(f"  [{time.monotonic() - T0:7.3f}s] {msg}")


def ago(seconds: float) -> str:
    return (datetime.datetime.now(datetime.timezone.utc) - datetime.timedelta(seconds=seconds)).isoformat()


def merge_patch(target, patch):
    """RFC 7386."""
    if not isinstance(patch, dict):
        return copy.deepcopy(patch)
    if not isinstance(target, dict):
        target = {}
    for key, val in patch.items():
        if val is None:
            target.pop(key, None)
        else:
            target[key] = merge_patch(target.get(key), val)
    return target


class FakeCluster:
    """One peering object + its version history; the only faked part (instead of HTTP)."""

    def __init__(self, status, *, patch_latency=(0., 0.), get_latency=(0., 0.)):
        self.rv = 100
        self.obj = {'apiVersion': 'kopf.dev/v1', 'kind': 'ClusterKopfPeering',
                    'metadata': {'name': NAME, 'uid': 'uid1', 'resourceVersion': str(self.rv)},
                    'status': copy.deepcopy(status)}
        self.history = []  # [(rv, body)] of all changes after the initial state
        self.changed = asyncio.Condition()
        self.patch_latency = patch_latency  # (before the commit, after the commit)
        self.get_latency = get_latency      # (before the snapshot, after the snapshot)

    def snapshot(self):
        return copy.deepcopy(self.obj)

    def brief(self, body=None):
        status = (self.obj if body is None else body).get('status', {})
        now = datetime.datetime.now(datetime.timezone.utc)
        return {k: ('EXPIRED' if peering.Peer(identity=k, **v).is_dead else 'fresh') + f"(prio={v['priority']})"
                for k, v in status.items()}

    async def patch(self, url, *, payload=None, headers=None, **_):
        assert headers['Content-Type'] == 'application/merge-patch+json', headers
        who = {k: ('REMOVE' if v is None else 'SET lastseen=now') for k, v in payload['status'].items()}
        log(f"PATCH sent      {who}")
        await asyncio.sleep(self.patch_latency[0])
        merge_patch(self.obj, payload)
        self.rv += 1
        self.obj['metadata']['resourceVersion'] = str(self.rv)
        self.history.append((self.rv, self.snapshot()))
        log(f"PATCH committed rv={self.rv} {who} -> status now: {self.brief()}")
        async with self.changed:
            self.changed.notify_all()
        await asyncio.sleep(self.patch_latency[1])
        return self.snapshot()

    async def get(self, url, **_):
        log(f"GET (list) sent")
        await asyncio.sleep(self.get_latency[0])
        rsp = {'kind': 'ClusterKopfPeeringList', 'apiVersion': 'kopf.dev/v1',
               'metadata': {'resourceVersion': str(self.rv)}, 'items': [self.snapshot()]}
        log(f"GET (list) served at rv={self.rv}: {self.brief()}")
        await asyncio.sleep(self.get_latency[1])
        return rsp

    async def watch_objs(self, *, since=None, operator_pause_waiter=None, **_):
        seen = int(since)
        while True:
            for rv, body in list(self.history):
                if rv > seen:
                    seen = rv
                    log(f"WATCH event MODIFIED rv={rv}: {self.brief(body)}")
                    yield {'type': 'MODIFIED', 'object': copy.deepcopy(body)}
            async with self.changed:
                if not any(rv > seen for rv, _ in self.history):
                    await self.changed.wait()


def install(cluster: FakeCluster) -> None:
    api.patch = cluster.patch            # patching.patch_obj calls api.patch(...)
    api.get = cluster.get                # fetching.list_objs calls api.get(...)
    watching.watch_objs = cluster.watch_objs  # continuous_watch calls watch_objs(...)


def make_settings(priority: int) -> configuration.OperatorSettings:
    settings = configuration.OperatorSettings()
    settings.peering.name = NAME
    settings.peering.priority = priority
    settings.peering.lifetime = 60
    return settings


async def observe_as_lower_priority_peer(cluster, versions, label='B'):
    """How another, lower-priority operator B (prio=0) reacts to the same sequence of events."""
    settings_b = make_settings(priority=0)
    paused = aiotoggles.Toggle(False, name='B-paused')
    real_patch = api.patch
    async def noop_patch(url, **_):  # B's own writes are irrelevant for the demo; do not disturb the object.
        return {}
    api.patch = noop_patch
    try:
        states = []
        for rv, body in versions:
            pressure = asyncio.Event(); pressure.set()  # "more events are coming": skip the sleeps
            await peering.process_peering_event(
                raw_event={'type': 'MODIFIED', 'object': copy.deepcopy(body)},
                namespace=NAMESPACE, resource=RESOURCE, identity=peering.Identity('operator-B'),
                settings=settings_b, conflicts_found=paused, stream_pressure=pressure, autoclean=False)
            states.append((rv, 'PAUSED' if paused.is_on() else 'ACTIVE'))
        return states
    finally:
        api.patch = real_patch


async def scenario_sequential(order: str) -> bool:
    """Manual interleaving of the real touch() and the real process_peering_event()."""
    stale = {ME: {'priority': 100, 'lifetime': 60, 'lastseen': ago(600)}}  # killed 10 min ago
    cluster = FakeCluster(stale)
    install(cluster)
    settings = make_settings(priority=100)
    kwargs = dict(namespace=NAMESPACE, resource=RESOURCE, identity=ME, settings=settings)
    log(f"initial status: {cluster.brief()}  (own record left over from the killed predecessor)")

    listing = cluster.snapshot()  # what the LIST request returns (taken before the first keep-alive lands)
    log(f"listing snapshot taken at rv={listing['metadata']['resourceVersion']}: {cluster.brief(listing)}")

    async def stale_listing_event():
        log("process_peering_event(stale listing) ...")
        pressure = asyncio.Event(); pressure.set()
        await peering.process_peering_event(
            raw_event={'type': None, 'object': listing}, stream_pressure=pressure,
            conflicts_found=aiotoggles.Toggle(False), **kwargs)

    async def first_keepalive():
        log("keepalive(): first touch() ...")
        task = asyncio.create_task(peering.keepalive(**kwargs))
        await asyncio.sleep(0.05)  # the first touch is done; the task now sleeps lifetime-5..10 s
        return task

    if order == 'touch-then-stale-listing':
        task = await first_keepalive()
        await stale_listing_event()
    else:
        await stale_listing_event()
        task = await first_keepalive()

    # The follow-up watch-events (own touch, own clean) as the watch-stream would deliver them.
    for rv, body in list(cluster.history):
        pressure = asyncio.Event(); pressure.set()
        await peering.process_peering_event(
            raw_event={'type': 'MODIFIED', 'object': copy.deepcopy(body)}, stream_pressure=pressure,
            conflicts_found=aiotoggles.Toggle(False), **kwargs)
    log(f"after re-processing all follow-up watch events: PATCHes total = {len(cluster.history)}")

    survived = ME in cluster.obj['status']
    log(f"keepalive task still running (operator alive): {not task.done()}")
    log(f"FINAL status: {cluster.obj['status']}")
    log(f"own fresh record survived: {survived}")
    if not survived:
        states = await observe_as_lower_priority_peer(cluster, cluster.history)
        log(f"a lower-priority peer B (prio 0) processing the same events: {states}"
            f"  => B ends {states[-1][1]} although {ME} (prio 100) is alive;"
            f" next keep-alive of {ME} only in ~{settings.peering.lifetime - 10}..{settings.peering.lifetime - 5} s")

    # Kill hard (no graceful lifetime=0 touch needed for the demo).
    task.cancel()
    try:
        await task
    except asyncio.CancelledError:
        pass
    return survived


async def scenario_native_startup(patch_latency, get_latency, peers=()) -> bool:
    """
    The real orchestration.spawn_missing_peerings(): keepalive task + watcher task, as in a real operator.
    Only the latencies of the fake API server decide on the interleaving.
    """
    stale = {ME: {'priority': 100, 'lifetime': 60, 'lastseen': ago(600)}}
    for name, prio in peers:
        stale[name] = {'priority': prio, 'lifetime': 60, 'lastseen': ago(600)}
    cluster = FakeCluster(stale, patch_latency=patch_latency, get_latency=get_latency)
    install(cluster)
    log(f"initial status: {cluster.brief()}; PATCH latency={patch_latency}, GET latency={get_latency}")

    async def start_operator(identity, priority):
        settings = make_settings(priority=priority)
        operator_paused = aiotoggles.ToggleSet(any)
        ensemble = orchestration.Ensemble(
            operator_indexed=aiotoggles.ToggleSet(all),
            operator_paused=operator_paused,
            peering_missing=await operator_paused.make_toggle(name='peering CRD is missing'),
        )
        await orchestration.spawn_missing_peerings(
            settings=settings, identity=identity, resources=[RESOURCE], namespaces=[NAMESPACE],
            ensemble=ensemble)
        return ensemble

    ensembles = {ME: await start_operator(ME, 100)}
    for name, prio in peers:
        ensembles[name] = await start_operator(peering.Identity(name), prio)

    await asyncio.sleep(1.0)  # let everything settle; the next keep-alive is 50..55 s away.

    ok = True
    for name, ensemble in ensembles.items():
        alive = all(not t.done() for t in ensemble.get_tasks(ensemble.get_keys()))
        survived = name in cluster.obj['status']
        paused = ensemble.operator_paused.is_on()
        log(f"{name}: tasks alive={alive}, own record present={survived}, paused={paused}")
        ok = ok and survived
    log(f"FINAL status: {cluster.obj['status']}")

    for ensemble in ensembles.values():
        for task in ensemble.get_tasks(ensemble.get_keys()):
            task.cancel()
        await asyncio.gather(*ensemble.get_tasks(ensemble.get_keys()), return_exceptions=True)
    return ok


async def main() -> int:
    logging.basicConfig(level=logging.WARNING)
    results = {}

    print("\n=== (a) keep-alive touch FIRST, then the STALE listing event is processed ===")
    results['a: touch, then stale listing'] = await scenario_sequential('touch-then-stale-listing')

    print("\n=== (b) STALE listing event processed FIRST, then the keep-alive touch ===")
    results['b: stale listing, then touch'] = await scenario_sequential('stale-listing-then-touch')

    print("\n=== (c1) real spawn_missing_peerings(); PATCH slower than GET (write 30 ms to commit, list 5 ms) ===")
    results['c1: native startup, GET served before the PATCH commits'] = \
        await scenario_native_startup(patch_latency=(0.030, 0.010), get_latency=(0.005, 0.005))

    print("\n=== (c2) real spawn_missing_peerings(); PATCH commits before the GET is served ===")
    results['c2: native startup, PATCH commits before GET is served'] = \
        await scenario_native_startup(patch_latency=(0.002, 0.002), get_latency=(0.020, 0.005))

    print("\n=== (c3) as c1, but TWO fixed-identity operators restart together (e.g. node reboot) ===")
    results['c3: two operators restart together, both stale'] = \
        await scenario_native_startup(patch_latency=(0.030, 0.010), get_latency=(0.005, 0.005),
                                      peers=[('operator-pod-1', 0)])

    print("\n=== SUMMARY (own fresh record survived?) ===")
    for name, survived in results.items():
        print(f"  {name:60s}: {'survived' if survived else 'REMOVED BY THE OPERATOR ITSELF'}")
    bad = [name for name, survived in results.items() if not survived]
    print(f"\nverdict: {'DEFECT REPRODUCED in: ' + '; '.join(bad) if bad else 'not reproducible'}")
    return 1 if bad else 0


if __name__ == '__main__':
    sys.exit(asyncio.run(main()))
