"""
Triage repro: duplicate initial events (listing + ADDED at the same resourceVersion) vs. the
carried-over finalizer patch after HTTP 422.

Real kopf code under test: queueing.watcher -> queueing.worker -> processing.process_resource_event
(-> application.apply -> patching.patch_obj), watching.continuous_watch/infinite_watch,
fetching.list_objs, real registry/handlers/memories/settings/storages.

Replaced: ONLY the HTTP client entry points kopf._cogs.clients.api.{get,stream,patch}
by an in-memory fake API server (merge-patch, JSON-patch with `test` op -> 422 if it fails,
resourceVersion bump on every change, every change echoed to the watch-stream).

Run: PYTHONPATH=/repo /venv/bin/python /verif/findings/F-C03-3.py
Exit 1: the create handler has NOT run after the system went quiet (suspect scenario).
Exit 0: it ran.
"""
import asyncio
import copy
import functools
import logging
import sys

import jsonpatch

import kopf
from kopf._cogs.clients import api, errors
from kopf._cogs.structs import references
from kopf._core.engines import indexing
from kopf._core.reactor import inventory, processing, queueing

CONSISTENCY_TIMEOUT = 0.5
IDLE_TIMEOUT = 0.5
QUIET_PERIOD = 2.5  # > idle_timeout + consistency_timeout, with a margin

RESOURCE = references.Resource('kopf.dev', 'v1', 'kopfexamples', kind='KopfExample',
                               singular='kopfexample', namespaced=True,
                               verbs=frozenset({'list', 'watch', 'patch'}))

T0 = 0.0
TIMELINE: list[str] = []
LAST_ACTIVITY = 0.0


def now() -> float:
    return asyncio.get_running_loop().time() - T0


def note(msg: str, activity: bool = True) -> None:
    global LAST_ACTIVITY
    line = f"[{now():7.3f}] {msg}"
    TIMELINE.append(line)
    print(line, flush=True)
    if activity:
        LAST_ACTIVITY = now()


class TimelineLogHandler(logging.Handler):
    def emit(self, record: logging.LogRecord) -> None:
        try:
            note(f"    kopf-log {record.levelname:5s} {record.getMessage()}", activity=False)
        except RuntimeError:
            pass


def merge_patch(target, patch):
    if not isinstance(patch, dict):
        return copy.deepcopy(patch)
    if not isinstance(target, dict):
        target = {}
    for k, v in patch.items():
        if v is None:
            target.pop(k, None)
        else:
            target[k] = merge_patch(target.get(k), v)
    return target


class FakeServer:
    """A tiny in-memory K8s API for one resource kind in one namespace."""

    def __init__(self, *, racy_list: bool) -> None:
        self.racy_list = racy_list
        self.rv = 0
        self.objs: dict[str, dict] = {}
        self.history: list[tuple[int, dict]] = []  # (rv, watch-event)
        self.watchers: list[asyncio.Queue] = []

    # -- the cluster side ("kubectl") --
    def _changed(self, type_: str, obj: dict) -> None:
        self.rv += 1
        obj['metadata']['resourceVersion'] = str(self.rv)
        event = {'type': type_, 'object': copy.deepcopy(obj)}
        self.history.append((self.rv, event))
        for q in self.watchers:
            q.put_nowait(copy.deepcopy(event))

    def create(self, name: str, spec: dict) -> None:
        obj = {'apiVersion': 'kopf.dev/v1', 'kind': 'KopfExample',
               'metadata': {'name': name, 'namespace': 'ns', 'uid': f'uid-{name}',
                            'creationTimestamp': '2026-01-01T00:00:00Z'},
               'spec': spec}
        self.objs[name] = obj
        self._changed('ADDED', obj)
        note(f"CLUSTER  created {name} -> rv={obj['metadata']['resourceVersion']}")

    def unrelated_touch(self, name: str) -> None:
        obj = self.objs[name]
        obj['metadata'].setdefault('labels', {})['someone-else'] = 'was-here'
        self._changed('MODIFIED', obj)
        note(f"CLUSTER  unrelated label change by another actor -> rv={obj['metadata']['resourceVersion']}")

    # -- the HTTP side (replacements of kopf._cogs.clients.api.*) --
    async def get(self, url, *, settings, logger, **_):
        # Listing. With racy_list=True, the list's own resourceVersion is the one from BEFORE
        # the object was created while the items already contain it (creation during the listing),
        # so the subsequent watch replays ADDED for the very same object's version.
        items = [copy.deepcopy(o) for o in self.objs.values()]
        list_rv = 0 if self.racy_list else self.rv
        note(f"API GET  list -> {[(o['metadata']['name'], 'rv=' + o['metadata']['resourceVersion']) for o in items]}"
             f" list.resourceVersion={list_rv}")
        await asyncio.sleep(0)
        return {'kind': 'KopfExampleList', 'apiVersion': 'kopf.dev/v1',
                'metadata': {'resourceVersion': str(list_rv)}, 'items': items}

    async def stream(self, url, *, settings, logger, stopper=None, **_):
        since = int(url.split('resourceVersion=')[1].split('&')[0]) if 'resourceVersion=' in url else 0
        note(f"API WATCH since={since}")
        q: asyncio.Queue = asyncio.Queue()
        for rv, event in self.history:
            if rv > since:
                q.put_nowait(copy.deepcopy(event))
        self.watchers.append(q)
        try:
            while True:
                event = await q.get()
                m = event['object']['metadata']
                note(f"WATCH-EVENT -> kopf: type={event['type']} rv={m['resourceVersion']} "
                     f"finalizers={m.get('finalizers', [])}")
                yield event
        finally:
            self.watchers.remove(q)

    async def patch(self, url, *, settings, logger, payload=None, headers=None, **_):
        await asyncio.sleep(0)
        name = url.rstrip('/').split('/')[-1].split('?')[0]
        obj = self.objs[name]
        ctype = (headers or {}).get('Content-Type')
        if ctype == 'application/merge-patch+json':
            new = merge_patch(copy.deepcopy(obj), payload)
            kind = 'MERGE'
        elif ctype == 'application/json-patch+json':
            kind = 'JSON '
            try:
                new = jsonpatch.JsonPatch(copy.deepcopy(payload)).apply(copy.deepcopy(obj))
            except (jsonpatch.JsonPatchTestFailed, jsonpatch.JsonPatchConflict) as e:
                note(f"API PATCH {kind} {payload!r} -> 422 ({e}); server is at rv={obj['metadata']['resourceVersion']}")
                raise errors.APIUnprocessableEntityError(
                    {'message': str(e), 'code': 422}, status=422, headers={})
        else:
            raise AssertionError(ctype)
        if new != obj:
            self.objs[name] = new
            self._changed('MODIFIED', new)
        note(f"API PATCH {kind} {payload!r} -> 200 rv={self.objs[name]['metadata']['resourceVersion']}")
        return copy.deepcopy(self.objs[name])


def worker_tasks_alive() -> list[str]:
    return [t.get_name() for t in asyncio.all_tasks() if t.get_name().startswith('worker for')]


async def wait_quiet(server: FakeServer) -> None:
    """Until: no activity for QUIET_PERIOD, no pending watch-events, no per-object workers."""
    while True:
        await asyncio.sleep(0.1)
        pending = any(not q.empty() for q in server.watchers)
        if now() - LAST_ACTIVITY >= QUIET_PERIOD and not pending and not worker_tasks_alive():
            return


async def scenario(title: str, *, racy_list: bool) -> tuple[bool, bool]:
    global T0, LAST_ACTIVITY
    T0 = asyncio.get_running_loop().time()
    LAST_ACTIVITY = 0.0
    print(f"\n===== {title} =====", flush=True)

    create_calls: list[str] = []
    registry = kopf.OperatorRegistry()

    @kopf.on.create('kopf.dev', 'v1', 'kopfexamples', registry=registry)
    async def create_fn(body, **_):
        create_calls.append(body['metadata']['resourceVersion'])
        note(f"HANDLER  create_fn invoked on rv={body['metadata']['resourceVersion']}")

    @kopf.on.delete('kopf.dev', 'v1', 'kopfexamples', registry=registry)  # mandatory -> finalizer
    async def delete_fn(**_):
        note("HANDLER  delete_fn invoked")

    settings = kopf.OperatorSettings()
    settings.persistence.consistency_timeout = CONSISTENCY_TIMEOUT
    settings.queueing.idle_timeout = IDLE_TIMEOUT
    settings.queueing.exit_timeout = 0.5
    settings.posting.enabled = False

    server = FakeServer(racy_list=racy_list)
    api.get = server.get
    api.stream = server.stream
    api.patch = server.patch

    # The object exists at rv=1 before the operator lists.
    server.create('obj1', {'field': 'value'})

    processor = functools.partial(
        processing.process_resource_event,
        lifecycle=kopf.lifecycles.all_at_once,
        registry=registry,
        settings=settings,
        indexers=indexing.OperatorIndexers(),
        memories=inventory.ResourceMemories(),
        memobase=kopf.Memo(),
        operator_paused=None,
        event_queue=asyncio.Queue(),
        resource=RESOURCE,
    )
    memories = processor.keywords['memories']
    cycle = 0

    async def traced_processor(*, raw_event, consistency_time=None, **kwargs):
        # Harness-only pass-through around the real processor: shows each worker cycle.
        nonlocal cycle
        cycle += 1
        n = cycle
        m = raw_event['object']['metadata']
        mem = memories._items.get(m['uid'])
        note(f"CYCLE {n}  begin: type={raw_event['type']} rv={m['resourceVersion']} "
             f"finalizers={m.get('finalizers', [])} "
             f"consistency_time={'None' if consistency_time is None else f'{consistency_time - T0:.3f}'} "
             f"carried remaining_patch={getattr(mem, 'remaining_patch', None)!r}")
        result = await processor(raw_event=raw_event, consistency_time=consistency_time, **kwargs)
        mem = memories._items.get(m['uid'])
        note(f"CYCLE {n}  end:   returned patched-rv={result!r} "
             f"remaining_patch={getattr(mem, 'remaining_patch', None)!r}")
        return result

    watcher_task = asyncio.create_task(queueing.watcher(
        namespace='ns', settings=settings, resource=RESOURCE, processor=traced_processor))

    try:
        await wait_quiet(server)
        ran_unaided = bool(create_calls)
        note(f"QUIET    no events pending, no workers alive, all sleeps done. "
             f"create_fn calls so far: {create_calls!r}")

        # Confirmation of the "until some unrelated event arrives" part.
        ran_after_nudge = ran_unaided
        if not ran_unaided:
            server.unrelated_touch('obj1')
            await wait_quiet(server)
            ran_after_nudge = bool(create_calls)
            note(f"QUIET    after the unrelated event: create_fn calls: {create_calls!r}")
        final = server.objs['obj1']['metadata']
        note(f"FINAL    server object: rv={final['resourceVersion']} finalizers={final.get('finalizers')} "
             f"annotations={sorted(final.get('annotations', {}))}")
        return ran_unaided, ran_after_nudge
    finally:
        watcher_task.cancel()
        try:
            await watcher_task
        except (asyncio.CancelledError, Exception):
            pass


async def main() -> int:
    handler = TimelineLogHandler(level=logging.DEBUG)
    klog = logging.getLogger('kopf')
    klog.setLevel(logging.DEBUG)
    klog.addHandler(handler)
    klog.propagate = False

    control = await scenario("CONTROL: conformant list (no duplicate): listing(None) rv=1 only",
                             racy_list=False)
    suspect = await scenario("SUSPECT: listing(None) rv=1 + ADDED rv=1 (object created while listing)",
                             racy_list=True)

    print("\n===== VERDICT =====")
    print(f"control: create handler ran unaided = {control[0]}")
    print(f"suspect: create handler ran unaided = {suspect[0]}; ran after an unrelated event = {suspect[1]}")
    if not control[0]:
        print("HARNESS PROBLEM: the control scenario did not run the handler; the result is not conclusive.")
        return 2
    if not suspect[0]:
        print("DEFECT REPRODUCED: the CREATE cause is not handled until an unrelated event arrives.")
        return 1
    print("NOT REPRODUCED: the create handler ran without any unrelated event.")
    return 0


if __name__ == '__main__':
    sys.exit(asyncio.run(main()))
