"""F-C12-4: kopf.warn() ignores settings.posting.enabled: with event-posting "disabled completely"
(docs/configuration.rst: "These two settings also affect kopf.event and related functions: kopf.info, kopf.warn,
kopf.exception -- even if they are called explicitly in the code") a Warning k8s-event is still queued for posting,
while event(), info() and exception() post nothing.  Run: /venv/bin/python /verif/findings/F-C12-4.py"""
import asyncio, sys
import kopf
from kopf._core.engines import posting

async def main():
    settings = kopf.OperatorSettings(); settings.posting.enabled = False
    queue = asyncio.Queue()
    posting.settings_var.set(settings)
    posting.event_queue_var.set(queue)
    posting.event_queue_loop_var.set(asyncio.get_running_loop())
    body = {'apiVersion': 'kopf.dev/v1', 'kind': 'KopfExample', 'metadata': {'name': 'x', 'namespace': 'ns', 'uid': 'u'}}
    kopf.event(body, type='T', reason='R', message='event')
    kopf.info(body, reason='R', message='info')
    kopf.warn(body, reason='R', message='warn')
    try:
        raise RuntimeError('boom')
    except RuntimeError:
        kopf.exception(body, reason='R', message='exception')
    got = []
    while not queue.empty():
        got.append(queue.get_nowait())
    print('settings.posting.enabled =', settings.posting.enabled, '; queued k8s-events:', [(e.type, e.message) for e in got])
    print('VIOLATION: kopf.warn() posts although event-posting is disabled (docs/configuration.rst)' if got else 'ok')
    sys.exit(1 if got else 0)
asyncio.run(main())
