"""
F-C12-2 (property C12): a 5xx/403/429 response whose body is a *truthy non-object JSON value* (`[1]`, `5`, `true`)
is reported by errors.check_response as AttributeError (raised inside APIError.__init__: `payload.get`)
instead of the status error (APIServerError / APIForbiddenError / APITooManyRequestsError), so api.request
does not retry it: the transient failure escalates at once as an unexpected error.
Run:  /venv/bin/python /verif/findings/F-C12-2.py      (exit 1 = defect reproduced)
"""
import asyncio
import sys

import aiohttp

from kopf._cogs.clients import errors


class Response:
    def __init__(self, status, body):
        self.status, self.body, self.headers = status, body, {}

    async def json(self):
        return self.body

    async def text(self):
        return ''

    def raise_for_status(self):
        if self.status >= 400:
            raise aiohttp.ClientResponseError(None, (), status=self.status)


async def main():
    bad = 0
    for status, body in [(503, [1]), (503, 5), (429, True), (403, ['x'])]:
        try:
            await errors.check_response(Response(status, body))
        except errors.APIError as e:
            print(f'{status} body={body!r}: ok, {e!r}')
        except Exception as e:
            print(f'{status} body={body!r}: VIOLATION, raised {e!r} instead of an APIError')
            bad += 1
    return 1 if bad else 0

sys.exit(asyncio.run(main()))
