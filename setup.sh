#!/bin/bash
# Offline build of the overlay venv: python 3.12 (+ the repo's own site-packages through a .pth) + z3/cvc5 wheels.
set -e
HERE="$(cd "$(dirname "${BASH_SOURCE[0]}")" && pwd)"
cd "$HERE"
if [ -x .venv/bin/python ] && .venv/bin/python -c 'import z3, kopf' 2>/dev/null; then exit 0; fi
rm -rf .venv
/venv/bin/python -m venv .venv
PIP_NO_INDEX=1 .venv/bin/pip install -q --no-index --find-links /opt/veriftools/wheels z3-solver cvc5 crosshair-tool deal icontract hypothesis jsonschema
echo "import site; site.addsitedir('/venv/lib/python3.12/site-packages')" > .venv/lib/python3.12/site-packages/_repo_overlay.pth
.venv/bin/python -c 'import z3, kopf; print("venv ok", z3.get_version_string(), kopf.__file__)'
